/-
C17 — messages with arrays, conditionals, nested structs and optional tails: a STATIC matcher between a definition and its dissector
program (`walkMs`), and its soundness for every canonical encoding (`walk_sound`, `walk_ends`): if the matcher accepts, then for EVERY
value the walk of the canonical encoding stops exactly at the end of the body.  (Thm/C17c.lean does this, with the reported field list,
for straight-line messages; here the conclusion is the end position — the property's statement — and the reported widths stay with the
interpreter runs of checks/c17.py.)

The dissector keeps some fields in C variables (`ret`); the definition's encoder keeps every numeric field in its environment.  The program
variables are numbered like the definition's fields (both sides by name), `L` is the list of variables on which the two environments are
known to agree; conditions and loop counts may only mention variables in `L`.
-/
import WowVerif.Thm.C17c
import WowVerif.Thm.C09c
namespace WowVerif.Wireshark
open WowVerif.Sem

/-! ## which program variables a piece of program may assign -/
mutual
def boundS : Stmt → List Nat
  | .ret _ _ v => [v]
  | .forc _ b => boundBl b
  | .forv _ b => boundBl b
  | .whileNotEnd b => boundBl b
  | .ifrest b => boundBl b
  | .ifs a => boundA a
  | .ver c => boundC c
  | _ => []
def boundBl : Block → List Nat
  | .nil => []
  | .cons s b => boundS s ++ boundBl b
def boundA : Arms → List Nat
  | .els b => boundBl b
  | .cons _ b r => boundBl b ++ boundA r
def boundC : Cases → List Nat
  | .nil => []
  | .cons _ b r => boundBl b ++ boundC r
end

/-- `b` differs from `a` at most on the variables in `B` -/
def Fr (B : List Nat) (a b : St) : Prop := ∀ v, v ∉ B → b.env.lookup v = a.env.lookup v

theorem Fr.refl (B : List Nat) (a : St) : Fr B a a := fun _ _ => rfl

theorem Fr.trans {B1 B2 : List Nat} {a b c : St} (h1 : Fr B1 a b) (h2 : Fr B2 b c) : Fr (B1 ++ B2) a c := by
  intro v hv
  simp only [List.mem_append, not_or] at hv
  rw [h2 v hv.2, h1 v hv.1]

theorem Fr.mono {B B' : List Nat} {a b : St} (h : Fr B a b) (hs : ∀ v, v ∈ B → v ∈ B') : Fr B' a b :=
  fun v hv => h v (fun hm => hv (hs v hm))

theorem take_map_fr (n : Nat) (e : Enc) (st st' : St) (h : (take n e st).map (·.2) = .ok st') : st'.env = st.env := by
  cases ht : take n e st with
  | error x => rw [ht] at h; cases h
  | ok p =>
    rw [ht] at h
    obtain ⟨bs, s2⟩ := p
    injection h with h
    subst h
    exact (take_ext n e st bs s2 ht).2

theorem iterN_fr (f : St → Except WErr St) (B : List Nat) (hf : ∀ a b, f a = .ok b → Fr B a b) :
    ∀ n a b, iterN f n a = .ok b → Fr B a b := by
  intro n
  induction n with
  | zero => intro a b h; injection h with h; subst h; exact Fr.refl B a
  | succ n ih =>
    intro a b h
    unfold iterN at h
    cases hfa : f a with
    | error x => rw [hfa] at h; cases h
    | ok c =>
      rw [hfa] at h
      intro v hv
      rw [ih c b h v hv, hf a c hfa v hv]

theorem iterWhile_fr (f : St → Except WErr St) (B : List Nat) (hf : ∀ a b, f a = .ok b → Fr B a b) :
    ∀ fuel a b, iterWhile f fuel a = .ok b → Fr B a b := by
  intro fuel
  induction fuel with
  | zero =>
    intro a b h
    unfold iterWhile at h
    by_cases he : a.rest.isEmpty
    · simp only [he, if_true] at h; injection h with h; subst h; exact Fr.refl B a
    · simp only [he] at h; cases h
  | succ n ih =>
    intro a b h
    unfold iterWhile at h
    by_cases he : a.rest.isEmpty
    · simp only [he, if_true] at h; injection h with h; subst h; exact Fr.refl B a
    · simp only [he] at h
      cases hfa : f a with
      | error x => rw [hfa] at h; cases h
      | ok c =>
        rw [hfa] at h
        by_cases hl : c.rest.length < a.rest.length
        · simp only [hl, if_true] at h
          intro v hv
          rw [ih c b h v hv, hf a c hfa v hv]
        · simp only [hl] at h; cases h

mutual
theorem runStmt_fr (ctx : Ctx) : ∀ (s : Stmt) (a b : St), runStmt ctx s a = .ok b → Fr (boundS s) a b
  | .add n e, a, b, h => by unfold runStmt at h; intro v _; rw [take_map_fr n e a b h]
  | .addv w e, a, b, h => by
      unfold runStmt at h
      cases hv : a.env.lookup w with
      | none => rw [hv] at h; cases h
      | some n => rw [hv] at h; intro v _; rw [take_map_fr n e a b h]
  | .addrest e, a, b, h => by unfold runStmt at h; intro v _; rw [take_map_fr _ e a b h]
  | .ret n e w, a, b, h => by
      unfold runStmt at h
      cases ht : take n e a with
      | error x => rw [ht] at h; cases h
      | ok p =>
        rw [ht] at h
        obtain ⟨bs, s2⟩ := p
        injection h with h
        subst h
        have he := (take_ext n e a bs s2 ht).2
        intro v hv
        simp only [boundS, List.mem_singleton] at hv
        have hne : (v == w) = false := by simpa using hv
        simp only [List.lookup_cons, hne, he]
  | .cstr, a, b, h => by
      unfold runStmt at h
      cases hz : zeroIndex a.rest with
      | none => rw [hz] at h; cases h
      | some k => rw [hz] at h; intro v _; rw [take_map_fr _ _ a b h]
  | .scstr, a, b, h => by
      unfold runStmt at h
      split at h
      · intro v _; rw [take_map_fr _ _ a b h]
      · cases h
  | .str, a, b, h => by
      unfold runStmt at h
      split at h
      · intro v _; rw [take_map_fr _ _ a b h]
      · cases h
  | .pguid, a, b, h => by
      unfold runStmt at h
      split at h
      · intro v _; rw [take_map_fr _ _ a b h]
      · cases h
  | .prim _, a, b, h => by unfold runStmt at h; cases h
  | .forc n body, a, b, h => by
      unfold runStmt at h
      simp only [boundS]
      exact iterN_fr _ _ (fun x y hxy => runBlock_fr ctx body x y hxy) n a b h
  | .forv w body, a, b, h => by
      unfold runStmt at h
      simp only [boundS]
      cases hv : a.env.lookup w with
      | none => rw [hv] at h; cases h
      | some n => rw [hv] at h; exact iterN_fr _ _ (fun x y hxy => runBlock_fr ctx body x y hxy) n a b h
  | .whileNotEnd body, a, b, h => by
      unfold runStmt at h
      simp only [boundS]
      exact iterWhile_fr _ _ (fun x y hxy => runBlock_fr ctx body x y hxy) _ a b h
  | .ifrest body, a, b, h => by
      unfold runStmt at h
      simp only [boundS]
      split at h
      · injection h with h; subst h; exact Fr.refl _ a
      · exact runBlock_fr ctx body a b h
  | .ifs arms, a, b, h => by unfold runStmt at h; simp only [boundS]; exact runArms_fr ctx arms a b h
  | .ver cases, a, b, h => by unfold runStmt at h; simp only [boundS]; exact runCases_fr ctx cases a b h
theorem runBlock_fr (ctx : Ctx) : ∀ (p : Block) (a b : St), runBlock ctx p a = .ok b → Fr (boundBl p) a b
  | .nil, a, b, h => by unfold runBlock at h; injection h with h; subst h; exact Fr.refl _ a
  | .cons s p, a, b, h => by
      unfold runBlock at h
      cases hs : runStmt ctx s a with
      | error x => rw [hs] at h; cases h
      | ok c =>
        rw [hs] at h
        simp only [boundBl]
        exact (runStmt_fr ctx s a c hs).trans (runBlock_fr ctx p c b h)
theorem runArms_fr (ctx : Ctx) : ∀ (p : Arms) (a b : St), runArms ctx p a = .ok b → Fr (boundA p) a b
  | .els p, a, b, h => by unfold runArms at h; simp only [boundA]; exact runBlock_fr ctx p a b h
  | .cons c p rest, a, b, h => by
      unfold runArms at h
      simp only [boundA]
      cases hc : c.holds ctx a.env with
      | error x => rw [hc] at h; cases h
      | ok t =>
        rw [hc] at h
        cases t
        · exact (runArms_fr ctx rest a b h).mono (fun v hv => List.mem_append_right _ hv)
        · exact (runBlock_fr ctx p a b h).mono (fun v hv => List.mem_append_left _ hv)
theorem runCases_fr (ctx : Ctx) : ∀ (p : Cases) (a b : St), runCases ctx p a = .ok b → Fr (boundC p) a b
  | .nil, a, b, h => by unfold runCases at h; cases h
  | .cons n p rest, a, b, h => by
      unfold runCases at h
      simp only [boundC]
      split at h
      · exact (runBlock_fr ctx p a b h).mono (fun v hv => List.mem_append_left _ hv)
      · exact (runCases_fr ctx rest a b h).mono (fun v hv => List.mem_append_right _ hv)
end

/-! ## the matcher -/

/-- the two environments agree on the variables in `L` -/
def Agree (L : List Nat) (env : Env) (wenv : List (Nat × Nat)) : Prop := ∀ v, v ∈ L → wenv.lookup v = env.lookup v

def intLike : Leaf → Bool
  | .int _ _ => true
  | .enumT _ _ _ => true
  | _ => false

def drop1 (L : List Nat) (id : Nat) : List Nat := L.filter (· != id)
def dropAll (L : List Nat) (B : List Nat) : List Nat := L.filter (fun v => !B.contains v)

/-- one leaf field `id : l` against one statement: the variables still known to agree afterwards -/
def walkLeaf (L : List Nat) (id : Nat) (l : Leaf) (s : Stmt) : Option (List Nat) :=
  if stmtOk l s then
    match s with
    | .ret _ _ w => if w == id && intLike l then some (id :: drop1 L id) else none
    | _ => some (drop1 L id)
  else none

def condOk (var : Nat) (c : Cond) (wc : WCond) : Bool :=
  match c, wc with
  | .eq vals, .eq w vals' => w == var && vals == vals'
  | .ne a, .ne w a' => w == var && a == a'
  | .band ms, .band w ms' => w == var && ms == ms'
  | _, _ => false

def isNilBlock : Block → Bool
  | .nil => true
  | _ => false

def elemNil (r : Option (List Nat × List Nat × Block)) : Bool :=
  match r with
  | some (_, _, q) => isNilBlock q
  | Option.none => false

/-- a leaf field against the first statement -/
def walkLeafS (L : List Nat) (id : Nat) (l : Leaf) : Block → Option (List Nat × List Nat × Block)
  | .cons s q => (walkLeaf L id l s).map fun L' => (L', boundS s, q)
  | .nil => Option.none

/-- a fixed-count array: a counted loop over one element's walk, or (bytes) one field of that many bytes -/
def walkFixedS (L : List Nat) (n : Nat) (byte : Bool) (elem : Block → Bool) : Block → Option (List Nat × List Nat × Block)
  | .cons (.forc n' body) q => if !byte && n' == n && elem body then some (dropAll L (boundBl body), boundBl body, q) else Option.none
  | .cons (.add n' e) q => if byte && n' == n && e == .na then some (L, [], q) else Option.none
  | _ => Option.none

/-- an array counted by the kept variable `var` -/
def walkVarS (L : List Nat) (var : Nat) (byte : Bool) (elem : Block → Bool) : Block → Option (List Nat × List Nat × Block)
  | .cons (.forv w body) q => if !byte && w == var && L.contains var && elem body then some (dropAll L (boundBl body), boundBl body, q) else Option.none
  | .cons (.addv w e) q => if byte && w == var && L.contains var && e == .na then some (L, [], q) else Option.none
  | _ => Option.none

def walkIfS (L : List Nat) (var : Nat) (ids : List Nat) (arms : Arms → Bool) : Block → Option (List Nat × List Nat × Block)
  | .cons (.ifs a) q => if L.contains var && arms a then some (dropAll (dropAll L ids) (boundA a), boundA a, q) else Option.none
  | _ => Option.none

def walkEndS (byte : Bool) (elem : Block → Bool) : Block → Option (List Nat × List Nat × Block)
  | .cons (.whileNotEnd body) .nil => if !byte && elem body then some ([], boundBl body, .nil) else Option.none
  | .cons (.addrest e) .nil => if byte && e == .na then some ([], [], .nil) else Option.none
  | _ => Option.none

def walkOptS (inner : Block → Bool) : Block → Option (List Nat × List Nat × Block)
  | .cons (.ifrest body) .nil => if inner body then some ([], boundBl body, .nil) else Option.none
  | _ => Option.none

mutual
/-- a member of type `t` (field `id`) against a prefix of the block: (variables that agree afterwards, program variables assigned, rest) -/
def walkTy (L : List Nat) (id : Nat) : Ty → Block → Option (List Nat × List Nat × Block)
  | .leaf l, p => walkLeafS L id l p
  | .struct ms, p =>
      match walkMs [] ms p with
      | some (_, B, q) => some (dropAll L B, B, q)
      | Option.none => Option.none
  | .arrFixed n t, p => walkFixedS L n (isByte t) (fun body => elemNil (walkTy [] 0 t body)) p
  | .arrVar var t, p => walkVarS L var (isByte t) (fun body => elemNil (walkTy [] 0 t body)) p
def walkM (L : List Nat) : Member → Block → Option (List Nat × List Nat × Block)
  | .field id _ t, p => walkTy L id t p
  | .ifs var bs, p => walkIfS L var (idsB bs) (fun a => walkB L var bs a) p
  | .endless _ t, p => walkEndS (isByte t) (fun body => elemNil (walkTy [] 0 t body)) p
  | .optional ms, p => walkOptS (fun body => elemNil (walkMs L ms body)) p
def walkB (L : List Nat) (var : Nat) : Branches → Arms → Bool
  | .els ms, .els body => elemNil (walkMs L ms body)
  | .cons c ms bs, .cons wc body arms => condOk var c wc && elemNil (walkMs L ms body) && walkB L var bs arms
  | _, _ => false
def walkMs (L : List Nat) : Members → Block → Option (List Nat × List Nat × Block)
  | .nil, p => some (L, [], p)
  | .cons m ms, p =>
      match walkM L m p with
      | some (L1, B1, q) =>
        (match walkMs L1 ms q with
         | some (L2, B2, q2) => some (L2, B1 ++ B2, q2)
         | Option.none => Option.none)
      | Option.none => Option.none
end

/-- the whole message: the program is consumed entirely -/
def walkMatches (c : Members) (p : Block) : Bool := elemNil (walkMs [] c p)

/-! ## helper lemmas -/

theorem rev_small {α} (l : List α) (h : l.length ≤ 1) : l.reverse = l := by
  match l, h with
  | [], _ => rfl
  | [_], _ => rfl
  | _ :: _ :: _, h => simp at h

def encOfEndian : Endian → Enc
  | .le => .le
  | .be => .be

theorem valOf_enc (k : Nat) (en : Endian) (n : Nat) (b : Bytes) (e : Enc) (h : encInt k en n = some b)
    (hok : k ≤ 1 ∨ e = encOfEndian en) : valOf e b = n := by
  unfold encInt at h
  split at h
  · rename_i hn
    injection h with h
    subst h
    have hl : (encLE k n).length = k := length_encLE k n
    cases en with
    | le =>
      cases hok with
      | inl hk =>
        cases e with
        | be => simp only [valOf, decBE]; rw [rev_small _ (by omega)]; exact decLE_encLE k n hn
        | le => exact decLE_encLE k n hn
        | na => exact decLE_encLE k n hn
      | inr he => subst he; exact decLE_encLE k n hn
    | be =>
      cases hok with
      | inl hk =>
        cases e with
        | be => exact decBE_encBE k n hn
        | le => simp only [valOf, encBE]; rw [rev_small _ (by omega)]; exact decLE_encLE k n hn
        | na => simp only [valOf, encBE]; rw [rev_small _ (by omega)]; exact decLE_encLE k n hn
      | inr he => subst he; exact decBE_encBE k n hn
  · cases h

/-- a kept integer-like field: the program variable receives the field's value -/
theorem ret_value (ctx : Ctx) (l : Leaf) (k : Nat) (e : Enc) (w : Nat) (v : Val) (b r : Bytes) (st st' : St)
    (hs : stmtOk l (.ret k e w) = true) (hi : intLike l = true) (he : encLeaf l v = some b) (hr : st.rest = b ++ r)
    (hrun : runStmt ctx (.ret k e w) st = .ok st') : ∃ n, v = .nat n ∧ st'.env.lookup w = some n := by
  have key : ∀ (k' : Nat) (en : Endian) (n : Nat), fixedWidth l = some k' → encOf l = (if k' ≤ 1 then Enc.na else encOfEndian en) →
      encInt k' en n = some b → v = .nat n → ∃ n, v = .nat n ∧ st'.env.lookup w = some n := by
    intro k' en n hfw henc hb hv
    simp only [stmtOk, hfw, Bool.and_eq_true, beq_iff_eq] at hs
    obtain ⟨hk, hok⟩ := hs
    subst hk
    have hlen : b.length = k := by
      unfold encInt at hb
      split at hb
      · injection hb with hb; subst hb; cases en <;> simp [encBE, length_encLE]
      · cases hb
    have ht := take_exact k e st b r hr hlen
    unfold runStmt at hrun
    simp only [ht] at hrun
    injection hrun with hrun
    subst hrun
    refine ⟨n, hv, ?_⟩
    have hok' : k ≤ 1 ∨ e = encOfEndian en := by
      unfold encOk at hok
      by_cases hk1 : k ≤ 1
      · exact Or.inl hk1
      · right
        simp only [hk1, decide_false, Bool.false_or, beq_iff_eq] at hok
        rw [hok, henc]; simp [hk1]
    simp [valOf_enc k en n b e hb hok']
  cases l with
  | int k' en =>
    cases v with
    | nat n => simp only [encLeaf] at he; exact key k' en n rfl (by cases en <;> simp [encOf, encOfEndian]) he rfl
    | _ => simp [encLeaf] at he
  | enumT k' en vals =>
    cases v with
    | nat n =>
      simp only [encLeaf] at he
      split at he
      · exact key k' en n rfl (by cases en <;> simp [encOf, encOfEndian]) he rfl
      · cases he
    | _ => simp [encLeaf] at he
  | _ => simp [intLike] at hi

theorem condOk_holds (ctx : Ctx) (var : Nat) (c : Cond) (wc : WCond) (wenv : List (Nat × Nat)) (x : Nat)
    (h : condOk var c wc = true) (hx : wenv.lookup var = some x) : wc.holds ctx wenv = .ok (c.holds x) := by
  cases c with
  | eq vals =>
    cases wc with
    | eq w vals' =>
      simp only [condOk, Bool.and_eq_true, beq_iff_eq] at h
      obtain ⟨hw, hv⟩ := h; subst hw; subst hv
      simp [WCond.holds, hx, Cond.holds]
    | _ => simp [condOk] at h
  | ne a =>
    cases wc with
    | ne w a' =>
      simp only [condOk, Bool.and_eq_true, beq_iff_eq] at h
      obtain ⟨hw, hv⟩ := h; subst hw; subst hv
      simp [WCond.holds, hx, Cond.holds]
    | _ => simp [condOk] at h
  | band ms =>
    cases wc with
    | band w ms' =>
      simp only [condOk, Bool.and_eq_true, beq_iff_eq] at h
      obtain ⟨hw, hv⟩ := h; subst hw; subst hv
      simp [WCond.holds, hx, Cond.holds]
    | _ => simp [condOk] at h

theorem mem_drop1 (L : List Nat) (id v : Nat) (h : v ∈ drop1 L id) : v ∈ L ∧ v ≠ id := by
  simpa [drop1] using h

theorem mem_dropAll (L B : List Nat) (v : Nat) (h : v ∈ dropAll L B) : v ∈ L ∧ v ∉ B := by
  simpa [dropAll] using h

theorem lookup_bind_ne (env : Env) (id : Nat) (val : Val) (v : Nat) (h : v ≠ id) : (env.bind id val).lookup v = env.lookup v := by
  cases val with
  | nat n =>
    have hne : (v == id) = false := by simpa using h
    simp [Env.bind, List.lookup_cons, hne]
  | _ => rfl

/-! ## reported fields -/

/-- the fields reported between two states of a walk are, entry by entry, the prescribed ones (width; encoding of multi-byte fields) -/
def TrOk (st st' : St) (tr : Trace) : Prop := ∃ tr', st'.trace = tr'.reverse ++ st.trace ∧ traceEq tr tr' = true

theorem traceEq_append : ∀ (a a' b b' : Trace), traceEq a a' = true → traceEq b b' = true → traceEq (a ++ b) (a' ++ b') = true
  | [], [], b, b', _, h2 => by simpa using h2
  | [], _ :: _, _, _, h1, _ => by simp [traceEq] at h1
  | _ :: _, [], _, _, h1, _ => by simp [traceEq] at h1
  | x :: a, y :: a', b, b', h1, h2 => by
    simp only [traceEq, Bool.and_eq_true] at h1
    simp only [List.cons_append, traceEq, Bool.and_eq_true]
    exact ⟨h1.1, traceEq_append a a' b b' h1.2 h2⟩

theorem TrOk.nil (st st' : St) (h : st'.trace = st.trace) : TrOk st st' [] := ⟨[], by simpa using h, by simp [traceEq]⟩

theorem TrOk.single (st st' : St) (n : Nat) (e e' : Enc) (h : st'.trace = (n, e') :: st.trace) (he : entryEq (n, e) (n, e') = true) :
    TrOk st st' [(n, e)] := ⟨[(n, e')], by simp [h], by simp [traceEq, he]⟩

theorem TrOk.append {st st1 st2 : St} {t1 t2 : Trace} (h1 : TrOk st st1 t1) (h2 : TrOk st1 st2 t2) : TrOk st st2 (t1 ++ t2) := by
  obtain ⟨a, ha, hea⟩ := h1
  obtain ⟨b, hb, heb⟩ := h2
  exact ⟨a ++ b, by rw [hb, ha]; simp, traceEq_append t1 a t2 b hea heb⟩

/-- a counted loop whose body walks one element walks the whole array and reports the elements' fields in order -/
theorem loopN (ctx : Ctx) (body : Block) (f : Val → Option Bytes) (ft : Val → Option Trace)
    (hbody : ∀ v b1 r1 st1, f v = some b1 → st1.rest = b1 ++ r1 →
      ∃ st2 tr1, ft v = some tr1 ∧ runBlock ctx body st1 = .ok st2 ∧ st2.rest = r1 ∧ TrOk st1 st2 tr1) :
    ∀ (vs : List Val) (b r : Bytes) (st : St), iterEnc f vs = some b → st.rest = b ++ r →
      ∃ st' tr, iterTr ft vs = some tr ∧ iterN (runBlock ctx body) vs.length st = .ok st' ∧ st'.rest = r ∧ TrOk st st' tr
  | [], b, r, st, h, hr => by
    simp [iterEnc] at h; subst h
    exact ⟨st, [], by simp [iterTr], rfl, by simpa using hr, TrOk.nil st st rfl⟩
  | v :: vs, b, r, st, h, hr => by
    simp only [iterEnc] at h
    cases h1 : f v with
    | none => simp [h1] at h
    | some b1 =>
      cases h2 : iterEnc f vs with
      | none => simp [h1, h2] at h
      | some b2 =>
        simp only [h1, h2, Option.some.injEq] at h
        subst h
        obtain ⟨st2, t1, hft, hrun, hrest, hto⟩ := hbody v b1 (b2 ++ r) st h1 (by rw [hr, List.append_assoc])
        obtain ⟨st3, t2, hit, hrun3, hrest3, hto3⟩ := loopN ctx body f ft hbody vs b2 r st2 h2 hrest
        exact ⟨st3, t1 ++ t2, by simp [iterTr, hft, hit], by simp only [List.length_cons, iterN, hrun, hrun3], hrest3, hto.append hto3⟩

/-- an end-of-packet loop whose body walks one (non-empty) element walks the whole endless array and stops at the end -/
theorem loopW (ctx : Ctx) (body : Block) (f : Val → Option Bytes) (ft : Val → Option Trace)
    (hbody : ∀ v b1 r1 st1, f v = some b1 → st1.rest = b1 ++ r1 →
      ∃ st2 tr1, ft v = some tr1 ∧ runBlock ctx body st1 = .ok st2 ∧ st2.rest = r1 ∧ TrOk st1 st2 tr1) :
    ∀ (vs : List Val) (b : Bytes) (st : St) (fuel : Nat), iterEnc1 f vs = some b → st.rest = b → b.length ≤ fuel →
      ∃ st' tr, iterTr ft vs = some tr ∧ iterWhile (runBlock ctx body) fuel st = .ok st' ∧ st'.rest = [] ∧ TrOk st st' tr
  | [], b, st, fuel, h, hr, _ => by
    simp [iterEnc1] at h; subst h
    refine ⟨st, [], by simp [iterTr], ?_, hr, TrOk.nil st st rfl⟩
    unfold iterWhile
    simp [hr]
  | v :: vs, b, st, fuel, h, hr, hf => by
    simp only [iterEnc1] at h
    cases h1 : f v with
    | none => simp [h1] at h
    | some b1 =>
      cases b1 with
      | nil => simp [h1] at h
      | cons x b1 =>
        cases h2 : iterEnc1 f vs with
        | none => simp [h1, h2] at h
        | some b2 =>
          simp only [h1, h2, Option.some.injEq] at h
          subst h
          obtain ⟨st2, t1, hft, hrun, hrest, hto⟩ := hbody v (x :: b1) b2 st h1 hr
          cases fuel with
          | zero => simp at hf
          | succ fuel =>
            obtain ⟨st3, t2, hit, hrun3, hrest3, hto3⟩ := loopW ctx body f ft hbody vs b2 st2 fuel h2 hrest (by simp at hf; omega)
            refine ⟨st3, t1 ++ t2, by simp [iterTr, hft, hit], ?_, hrest3, hto.append hto3⟩
            unfold iterWhile
            have hne : st.rest.isEmpty = false := by rw [hr]; rfl
            have hlt : st2.rest.length < st.rest.length := by rw [hrest, hr]; simp; omega
            simp only [hne, Bool.false_eq_true, if_false, hrun, hlt, if_true, hrun3]

theorem isNil_eq (q : Block) (h : isNilBlock q = true) : q = .nil := by
  cases q with
  | nil => rfl
  | cons _ _ => simp [isNilBlock] at h

theorem elemNil_eq (r : Option (List Nat × List Nat × Block)) (h : elemNil r = true) : ∃ L B, r = some (L, B, .nil) := by
  cases r with
  | none => simp [elemNil] at h
  | some x =>
    obtain ⟨L, B, q⟩ := x
    simp only [elemNil] at h
    rw [isNil_eq q h]
    exact ⟨L, B, rfl⟩

theorem agree_nil (env : Env) (wenv : List (Nat × Nat)) : Agree [] env wenv := fun _ h => by simp at h

/-- one leaf field against one statement -/
theorem walkLeaf_sound (ctx : Ctx) (L : List Nat) (id : Nat) (l : Leaf) (s : Stmt) (L' : List Nat) (hw : walkLeaf L id l s = some L')
    (env : Env) (v : Val) (b r : Bytes) (st : St) (he : encLeaf l v = some b) (hr : st.rest = b ++ r) (ha : Agree L env st.env) :
    ∃ st', runStmt ctx s st = .ok st' ∧ st'.rest = r ∧ Agree L' (env.bind id v) st'.env ∧ Fr (boundS s) st st' ∧
      TrOk st st' [(b.length, encOf l)] := by
  have hs : stmtOk l s = true := by
    unfold walkLeaf at hw
    split at hw
    · assumption
    · cases hw
  obtain ⟨st', e', hrun, hrest, htrace, hent⟩ := stmt_leaf ctx l s v b r st hs he hr
  have hfr := runStmt_fr ctx s st st' hrun
  refine ⟨st', hrun, hrest, ?_, hfr, TrOk.single st st' b.length (encOf l) e' htrace hent⟩
  have nonret : boundS s = [] → walkLeaf L id l s = some (drop1 L id) → Agree L' (env.bind id v) st'.env := by
    intro hb hw2
    rw [hw2] at hw
    injection hw with hw
    subst hw
    intro u hu
    obtain ⟨huL, hne⟩ := mem_drop1 L id u hu
    rw [hfr u (by simp [hb]), ha u huL, lookup_bind_ne env id v u hne]
  cases s with
  | ret k e w =>
    simp only [walkLeaf, hs, if_true] at hw
    split at hw
    · rename_i hc
      simp only [Bool.and_eq_true, beq_iff_eq] at hc
      obtain ⟨hwid, hi⟩ := hc
      subst hwid
      injection hw with hw
      subst hw
      obtain ⟨n, hv, hl⟩ := ret_value ctx l k e w v b r st st' hs hi he hr hrun
      subst hv
      intro u hu
      simp only [List.mem_cons] at hu
      cases hu with
      | inl h1 => subst h1; rw [hl]; simp [Env.bind]
      | inr h2 =>
        have hne' : u ≠ w := (mem_drop1 L w u h2).2
        rw [hfr u (by simp [boundS, hne']), ha u (mem_drop1 L w u h2).1, lookup_bind_ne env w (.nat n) u hne']
    · cases hw
  | add n e => exact nonret rfl (by simp [walkLeaf, hs])
  | cstr => exact nonret rfl (by simp [walkLeaf, hs])
  | scstr => exact nonret rfl (by simp [walkLeaf, hs])
  | pguid => exact nonret rfl (by simp [walkLeaf, hs])
  | str => exact nonret rfl (by simp [walkLeaf, hs])
  | addv _ _ => simp [stmtOk] at hs
  | addrest _ => simp [stmtOk] at hs
  | prim _ => simp [stmtOk] at hs
  | forc _ _ => simp [stmtOk] at hs
  | forv _ _ => simp [stmtOk] at hs
  | whileNotEnd _ => simp [stmtOk] at hs
  | ifrest _ => simp [stmtOk] at hs
  | ifs _ => simp [stmtOk] at hs
  | ver _ => simp [stmtOk] at hs

private theorem wfMs_cons3 (m : Member) (ms : Members) (h : wfMs (.cons m ms) = true) :
    wfM m = true ∧ wfMs ms = true ∧ (ms ≠ .nil → tailFreeM m = true) := by
  cases ms with
  | nil => simp only [wfMs] at h; exact ⟨h, rfl, fun c => absurd rfl c⟩
  | cons m' ms' =>
    simp only [wfMs, Bool.and_eq_true] at h
    exact ⟨h.1.2, h.2, fun _ => h.1.1⟩

theorem encMembers_selfSize' (id : Nat) (t : Ty) (ms : Members) (env : Env) (v : Val) (vs : List Val) :
    encMembers (.cons (.field id .selfSize t) ms) env (v :: vs) =
      (match encMembers ms (env.bind id v) vs with
       | Option.none => Option.none
       | some (b2, env2) =>
         match v with
         | .nat n => if n = b2.length then (encTy t env v).map fun b1 => (b1 ++ b2, env2) else Option.none
         | _ => Option.none) := by
  simp only [encMembers]; rfl

/-- a member list encodes as its first member followed by the others (also when the first member is a `self.size` field, whose value is
fixed by what follows it) -/
theorem encMembers_cons_split (m : Member) (ms : Members) (env : Env) (v : Val) (vs : List Val) (b : Bytes) (env' : Env)
    (h : encMembers (.cons m ms) env (v :: vs) = some (b, env')) :
    ∃ b1 env1 b2, encMember m env v = some (b1, env1) ∧ encMembers ms env1 vs = some (b2, env') ∧ b = b1 ++ b2 := by
  by_cases hss : isSelfSize m = true
  · cases m with
    | field id role t =>
      cases role with
      | selfSize =>
        rw [encMembers_selfSize'] at h
        cases he2 : encMembers ms (env.bind id v) vs with
        | none => simp [he2] at h
        | some p2 =>
          obtain ⟨b2, env2⟩ := p2
          simp only [he2] at h
          cases v with
          | nat n =>
            simp only at h
            split at h
            · cases he1 : encTy t env (.nat n) with
              | none => simp [he1] at h
              | some b1 =>
                simp only [he1, Option.map_some, Option.some.injEq, Prod.mk.injEq] at h
                obtain ⟨hb, henv⟩ := h
                subst hb; subst henv
                exact ⟨b1, env.bind id (.nat n), b2, by simp [encMember, roleOk, he1], he2, rfl⟩
            · cases h
          | bytes _ => simp at h
          | tuple _ => simp at h
          | list _ => simp at h
          | none => simp at h
      | plain => simp [isSelfSize] at hss
      | const c => simp [isSelfSize] at hss
    | ifs _ _ => simp [isSelfSize] at hss
    | endless _ _ => simp [isSelfSize] at hss
    | optional _ => simp [isSelfSize] at hss
  · have hss' : isSelfSize m = false := by simpa using hss
    rw [encMembers_cons_general m ms env v vs hss'] at h
    cases he1 : encMember m env v with
    | none => simp [he1] at h
    | some p1 =>
      obtain ⟨b1, env1⟩ := p1
      simp only [he1] at h
      cases he2 : encMembers ms env1 vs with
      | none => simp [he2] at h
      | some p2 =>
        obtain ⟨b2, env2⟩ := p2
        simp only [he2, Option.some.injEq, Prod.mk.injEq] at h
        obtain ⟨hb, henv⟩ := h
        subst hb; subst henv
        exact ⟨b1, env1, b2, rfl, he2, rfl⟩

theorem mem_of_contains (L : List Nat) (v : Nat) (h : L.contains v = true) : v ∈ L := by simpa using h

mutual
theorem walkTy_sound (ctx : Ctx) : ∀ (t : Ty) (L : List Nat) (id : Nat) (p : Block) (L' B : List Nat) (q : Block),
    walkTy L id t p = some (L', B, q) → wfTy t = true →
    ∀ (env : Env) (v : Val) (b r : Bytes) (st : St), encTy t env v = some b → st.rest = b ++ r → Agree L env st.env →
      ∃ st' tr, runBlock ctx p st = runBlock ctx q st' ∧ st'.rest = r ∧ Agree L' (env.bind id v) st'.env ∧ Fr B st st' ∧
        trTy t env v = some tr ∧ TrOk st st' tr
  | .leaf l, L, id, p, L', B, q, hw, _, env, v, b, r, st, he, hr, ha => by
    simp only [walkTy] at hw
    cases p with
    | nil => simp [walkLeafS] at hw
    | cons s q0 =>
      simp only [walkLeafS] at hw
      cases hl : walkLeaf L id l s with
      | none => simp [hl] at hw
      | some L1 =>
        simp only [hl, Option.map_some, Option.some.injEq, Prod.mk.injEq] at hw
        obtain ⟨h1, h2, h3⟩ := hw
        subst h1; subst h2; subst h3
        simp only [encTy] at he
        obtain ⟨st', hrun, hrest, hag, hfr, hto⟩ := walkLeaf_sound ctx L id l s L1 hl env v b r st he hr ha
        exact ⟨st', [(b.length, encOf l)], by simp only [runBlock, hrun], hrest, hag, hfr, by simp [trTy, he], hto⟩
  | .struct ms, L, id, p, L', B, q, hw, hwf, env, v, b, r, st, he, hr, ha => by
    simp only [walkTy] at hw
    cases hm : walkMs [] ms p with
    | none => simp [hm] at hw
    | some x =>
      obtain ⟨L0, B0, q0⟩ := x
      simp only [hm, Option.some.injEq, Prod.mk.injEq] at hw
      obtain ⟨h1, h2, h3⟩ := hw
      subst h1; subst h2; subst h3
      simp only [wfTy, Bool.and_eq_true] at hwf
      cases v with
      | tuple vs =>
        simp only [encTy] at he
        cases hq : encMembers ms [] vs with
        | none => simp [hq] at he
        | some y =>
          obtain ⟨b', e'⟩ := y
          simp [hq] at he
          subst he
          obtain ⟨st', tr, hrun, hrest, _, hfr, htr, hto⟩ :=
            walkMs_sound ctx ms [] p L0 B0 q0 hm hwf.2 [] vs b' e' r st hq hr (Or.inl hwf.1) (agree_nil _ _)
          refine ⟨st', tr, hrun, hrest, ?_, hfr, by simp [trTy, htr], hto⟩
          intro u hu
          obtain ⟨huL, hnb⟩ := mem_dropAll L B0 u hu
          rw [hfr u hnb, ha u huL]; rfl
      | nat _ => simp [encTy] at he
      | bytes _ => simp [encTy] at he
      | list _ => simp [encTy] at he
      | none => simp [encTy] at he
  | .arrFixed n t, L, id, p, L', B, q, hw, hwf, env, v, b, r, st, he, hr, ha => by
    simp only [walkTy] at hw
    simp only [wfTy] at hwf
    cases v with
    | list vs =>
      simp only [encTy] at he
      split at he
      · rename_i hn
        cases p with
        | nil => simp [walkFixedS] at hw
        | cons s q0 =>
          cases s with
          | forc n' body =>
            simp only [walkFixedS] at hw
            split at hw
            · rename_i hc
              simp only [Bool.and_eq_true, beq_iff_eq, Bool.not_eq_true'] at hc
              obtain ⟨⟨hnb, hnn⟩, hel⟩ := hc
              simp only [Option.some.injEq, Prod.mk.injEq] at hw
              obtain ⟨h1, h2, h3⟩ := hw
              subst h1; subst h2; subst h3
              obtain ⟨L0, B0, hel'⟩ := elemNil_eq _ hel
              have hbody : ∀ v1 b1 r1 st1, encTy t env v1 = some b1 → st1.rest = b1 ++ r1 →
                  ∃ st2 tr1, trTy t env v1 = some tr1 ∧ runBlock ctx body st1 = .ok st2 ∧ st2.rest = r1 ∧ TrOk st1 st2 tr1 := by
                intro v1 b1 r1 st1 h1 h2
                obtain ⟨st2, tr1, hrun, hrest, _, _, htr, hto⟩ := walkTy_sound ctx t [] 0 body L0 B0 .nil hel' hwf env v1 b1 r1 st1 h1 h2 (agree_nil _ _)
                exact ⟨st2, tr1, htr, by rw [hrun]; simp [runBlock], hrest, hto⟩
              obtain ⟨st', tr, hit, hrun, hrest, hto⟩ := loopN ctx body (encTy t env) (trTy t env) hbody vs b r st he hr
              have hrs : runStmt ctx (.forc n' body) st = .ok st' := by
                simp only [runStmt]; rw [hnn, ← hn]; exact hrun
              have hfr := runStmt_fr ctx _ st st' hrs
              refine ⟨st', tr, by simp only [runBlock, hrs], hrest, ?_, hfr, by simp [trTy, hnb, hit], hto⟩
              intro u hu
              obtain ⟨huL, hnb'⟩ := mem_dropAll L _ u hu
              rw [hfr u (by simpa [boundS] using hnb'), ha u huL]; rfl
            · cases hw
          | add n' e =>
            simp only [walkFixedS] at hw
            split at hw
            · rename_i hc
              simp only [Bool.and_eq_true, beq_iff_eq] at hc
              obtain ⟨⟨hby, hnn⟩, hena⟩ := hc
              simp only [Option.some.injEq, Prod.mk.injEq] at hw
              obtain ⟨h1, h2, h3⟩ := hw
              subst h1; subst h2; subst h3; subst hena
              have hlen := bytes_len t env hby vs b he
              have ht := take_exact n' .na st b r hr (by rw [hlen, hn, hnn])
              have hrs : runStmt ctx (.add n' .na) st = .ok { st with rest := r, trace := (n', .na) :: st.trace } := by
                simp only [runStmt, ht]; rfl
              refine ⟨{ st with rest := r, trace := (n', .na) :: st.trace }, [(vs.length, .na)], by simp only [runBlock, hrs], rfl, ?_, ?_, by simp [trTy, hby], ?_⟩
              · intro u hu; exact ha u hu
              · intro u _; rfl
              · rw [hn, ← hnn]; exact TrOk.single _ _ n' .na .na rfl (by simp [entryEq])
            · cases hw
          | _ => simp [walkFixedS] at hw
      · cases he
    | nat _ => simp [encTy] at he
    | bytes _ => simp [encTy] at he
    | tuple _ => simp [encTy] at he
    | none => simp [encTy] at he
  | .arrVar var t, L, id, p, L', B, q, hw, hwf, env, v, b, r, st, he, hr, ha => by
    simp only [walkTy] at hw
    simp only [wfTy] at hwf
    cases v with
    | list vs =>
      simp only [encTy] at he
      split at he
      · rename_i hget
        cases p with
        | nil => simp [walkVarS] at hw
        | cons s q0 =>
          cases s with
          | forv w body =>
            simp only [walkVarS] at hw
            split at hw
            · rename_i hc
              simp only [Bool.and_eq_true, beq_iff_eq, Bool.not_eq_true'] at hc
              obtain ⟨⟨⟨hnb, hwv⟩, hcont⟩, hel⟩ := hc
              simp only [Option.some.injEq, Prod.mk.injEq] at hw
              obtain ⟨h1, h2, h3⟩ := hw
              subst h1; subst h2; subst h3
              obtain ⟨L0, B0, hel'⟩ := elemNil_eq _ hel
              have hbody : ∀ v1 b1 r1 st1, encTy t env v1 = some b1 → st1.rest = b1 ++ r1 →
                  ∃ st2 tr1, trTy t env v1 = some tr1 ∧ runBlock ctx body st1 = .ok st2 ∧ st2.rest = r1 ∧ TrOk st1 st2 tr1 := by
                intro v1 b1 r1 st1 h1 h2
                obtain ⟨st2, tr1, hrun, hrest, _, _, htr, hto⟩ := walkTy_sound ctx t [] 0 body L0 B0 .nil hel' hwf env v1 b1 r1 st1 h1 h2 (agree_nil _ _)
                exact ⟨st2, tr1, htr, by rw [hrun]; simp [runBlock], hrest, hto⟩
              obtain ⟨st', tr, hit, hrun, hrest, hto⟩ := loopN ctx body (encTy t env) (trTy t env) hbody vs b r st he hr
              have hlk : st.env.lookup w = some vs.length := by
                rw [hwv, ha var (mem_of_contains L var hcont)]; exact hget
              have hrs : runStmt ctx (.forv w body) st = .ok st' := by
                simp only [runStmt, hlk]; exact hrun
              have hfr := runStmt_fr ctx _ st st' hrs
              refine ⟨st', tr, by simp only [runBlock, hrs], hrest, ?_, hfr, by simp [trTy, hnb, hit], hto⟩
              intro u hu
              obtain ⟨huL, hnb'⟩ := mem_dropAll L _ u hu
              rw [hfr u (by simpa [boundS] using hnb'), ha u huL]; rfl
            · cases hw
          | addv w e =>
            simp only [walkVarS] at hw
            split at hw
            · rename_i hc
              simp only [Bool.and_eq_true, beq_iff_eq] at hc
              obtain ⟨⟨⟨hby, hwv⟩, hcont⟩, hena⟩ := hc
              simp only [Option.some.injEq, Prod.mk.injEq] at hw
              obtain ⟨h1, h2, h3⟩ := hw
              subst h1; subst h2; subst h3; subst hena
              have hlen := bytes_len t env hby vs b he
              have hlk : st.env.lookup w = some vs.length := by
                rw [hwv, ha var (mem_of_contains L var hcont)]; exact hget
              have ht := take_exact vs.length .na st b r hr hlen
              have hrs : runStmt ctx (.addv w .na) st = .ok { st with rest := r, trace := (vs.length, .na) :: st.trace } := by
                simp only [runStmt, hlk, ht]; rfl
              refine ⟨{ st with rest := r, trace := (vs.length, .na) :: st.trace }, [(vs.length, .na)], by simp only [runBlock, hrs], rfl, ?_, ?_, by simp [trTy, hby], ?_⟩
              · intro u hu; exact ha u hu
              · intro u _; rfl
              · exact TrOk.single _ _ vs.length .na .na rfl (by simp [entryEq])
            · cases hw
          | _ => simp [walkVarS] at hw
      · cases he
    | nat _ => simp [encTy] at he
    | bytes _ => simp [encTy] at he
    | tuple _ => simp [encTy] at he
    | none => simp [encTy] at he
theorem walkM_sound (ctx : Ctx) : ∀ (m : Member) (L : List Nat) (p : Block) (L' B : List Nat) (q : Block),
    walkM L m p = some (L', B, q) → wfM m = true →
    ∀ (env : Env) (v : Val) (b : Bytes) (env' : Env) (r : Bytes) (st : St), encMember m env v = some (b, env') → st.rest = b ++ r →
      (tailFreeM m = true ∨ r = []) → Agree L env st.env →
      ∃ st' tr, runBlock ctx p st = runBlock ctx q st' ∧ st'.rest = r ∧ Agree L' env' st'.env ∧ Fr B st st' ∧
        trMember m env v = some (tr, env') ∧ TrOk st st' tr
  | .field id role t, L, p, L', B, q, hw, hwf, env, v, b, env', r, st, he, hr, _, ha => by
    simp only [walkM] at hw
    simp only [encMember] at he
    split at he
    · cases ht : encTy t env v with
      | none => simp [ht] at he
      | some b1 =>
        simp only [ht, Option.map_some, Option.some.injEq, Prod.mk.injEq] at he
        obtain ⟨hb, henv⟩ := he
        subst hb; subst henv
        simp only [wfM] at hwf
        obtain ⟨st', tr, hrun, hrest, hag, hfr, htr, hto⟩ := walkTy_sound ctx t L id p L' B q hw hwf env v b1 r st ht hr ha
        exact ⟨st', tr, hrun, hrest, hag, hfr, by simp [trMember, htr], hto⟩
    · cases he
  | .ifs var bs, L, p, L', B, q, hw, hwf, env, v, b, env', r, st, he, hr, htl, ha => by
    simp only [walkM] at hw
    simp only [wfM] at hwf
    cases p with
    | nil => simp [walkIfS] at hw
    | cons s q0 =>
      cases s with
      | ifs arms =>
        simp only [walkIfS] at hw
        split at hw
        · rename_i hc
          simp only [Bool.and_eq_true] at hc
          obtain ⟨hcont, hwb⟩ := hc
          simp only [Option.some.injEq, Prod.mk.injEq] at hw
          obtain ⟨h1, h2, h3⟩ := hw
          subst h1; subst h2; subst h3
          cases v with
          | tuple vs =>
            simp only [encMember] at he
            cases hx : env.get var with
            | none => simp [hx] at he
            | some x =>
              simp only [hx] at he
              have hlk : st.env.lookup var = some x := by rw [ha var (mem_of_contains L var hcont)]; exact hx
              obtain ⟨st', tr, hrun, hrest, htr, hto⟩ := walkB_sound ctx bs L var arms hwb hwf x env vs b env' r st he hlk hr
                (by simpa [tailFreeM] using htl) ha
              have hrs : runStmt ctx (.ifs arms) st = .ok st' := by simp only [runStmt]; exact hrun
              have hfr := runStmt_fr ctx _ st st' hrs
              refine ⟨st', tr, by simp only [runBlock, hrs], hrest, ?_, hfr, by simp [trMember, hx, htr], hto⟩
              intro u hu
              obtain ⟨hu1, hnb⟩ := mem_dropAll _ _ u hu
              obtain ⟨huL, hni⟩ := mem_dropAll L _ u hu1
              rw [hfr u (by simpa [boundS] using hnb), ha u huL]
              exact (frameB bs x env vs b env' he u hni).symm
          | nat _ => simp [encMember] at he
          | bytes _ => simp [encMember] at he
          | list _ => simp [encMember] at he
          | none => simp [encMember] at he
        · cases hw
      | _ => simp [walkIfS] at hw
  | .endless id t, L, p, L', B, q, hw, hwf, env, v, b, env', r, st, he, hr, htl, ha => by
    simp only [walkM] at hw
    simp only [wfM] at hwf
    have hr0 : r = [] := by
      cases htl with
      | inl h => simp [tailFreeM] at h
      | inr h => exact h
    subst hr0
    simp only [List.append_nil] at hr
    cases v with
    | list vs =>
      simp only [encMember] at he
      cases h1 : iterEnc1 (encTy t env) vs with
      | none => simp [h1] at he
      | some b1 =>
        simp only [h1, Option.map_some, Option.some.injEq, Prod.mk.injEq] at he
        obtain ⟨hb, henv⟩ := he
        subst hb; subst henv
        cases p with
        | nil => simp [walkEndS] at hw
        | cons s q0 =>
          cases q0 with
          | cons _ _ => cases s <;> simp [walkEndS] at hw
          | nil =>
            cases s with
            | whileNotEnd body =>
              simp only [walkEndS] at hw
              split at hw
              · rename_i hc
                simp only [Bool.and_eq_true, Bool.not_eq_true'] at hc
                obtain ⟨hnb, hel⟩ := hc
                simp only [Option.some.injEq, Prod.mk.injEq] at hw
                obtain ⟨h1', h2', h3'⟩ := hw
                subst h1'; subst h2'; subst h3'
                obtain ⟨L0, B0, hel'⟩ := elemNil_eq _ hel
                have hbody : ∀ v1 b1' r1 st1, encTy t env v1 = some b1' → st1.rest = b1' ++ r1 →
                    ∃ st2 tr1, trTy t env v1 = some tr1 ∧ runBlock ctx body st1 = .ok st2 ∧ st2.rest = r1 ∧ TrOk st1 st2 tr1 := by
                  intro v1 b1' r1 st1 h1' h2'
                  obtain ⟨st2, tr1, hrun, hrest, _, _, htr, hto⟩ := walkTy_sound ctx t [] 0 body L0 B0 .nil hel' hwf env v1 b1' r1 st1 h1' h2' (agree_nil _ _)
                  exact ⟨st2, tr1, htr, by rw [hrun]; simp [runBlock], hrest, hto⟩
                obtain ⟨st', tr, hit, hrun, hrest, hto⟩ := loopW ctx body (encTy t env) (trTy t env) hbody vs b1 st st.rest.length h1 hr (by rw [hr]; exact Nat.le_refl _)
                have hrs : runStmt ctx (.whileNotEnd body) st = .ok st' := by simp only [runStmt]; exact hrun
                have hfr := runStmt_fr ctx _ st st' hrs
                exact ⟨st', tr, by simp only [runBlock, hrs], hrest, agree_nil _ _, by simpa [boundS] using hfr, by simp [trMember, hnb, hit], hto⟩
              · cases hw
            | addrest e =>
              simp only [walkEndS] at hw
              split at hw
              · rename_i hc
                simp only [Bool.and_eq_true, beq_iff_eq] at hc
                obtain ⟨hby, hena⟩ := hc
                simp only [Option.some.injEq, Prod.mk.injEq] at hw
                obtain ⟨h1', h2', h3'⟩ := hw
                subst h1'; subst h2'; subst h3'; subst hena
                have hlen := bytes1_len t env hby vs b1 h1
                have ht := take_exact st.rest.length .na st b1 [] (by simpa using hr) (by rw [hr])
                have hrs : runStmt ctx (.addrest .na) st = .ok { st with rest := [], trace := (st.rest.length, .na) :: st.trace } := by
                  simp only [runStmt, ht]; rfl
                refine ⟨{ st with rest := [], trace := (st.rest.length, .na) :: st.trace }, [(vs.length, .na)], by simp only [runBlock, hrs], rfl, agree_nil _ _, fun u _ => rfl, by simp [trMember, hby], ?_⟩
                rw [← hlen, ← hr]
                exact TrOk.single _ _ st.rest.length .na .na rfl (by simp [entryEq])
              · cases hw
            | _ => simp [walkEndS] at hw
    | nat _ => simp [encMember] at he
    | bytes _ => simp [encMember] at he
    | tuple _ => simp [encMember] at he
    | none => simp [encMember] at he
  | .optional ms, L, p, L', B, q, hw, hwf, env, v, b, env', r, st, he, hr, htl, ha => by
    simp only [walkM] at hw
    simp only [wfM] at hwf
    have hr0 : r = [] := by
      cases htl with
      | inl h => simp [tailFreeM] at h
      | inr h => exact h
    subst hr0
    simp only [List.append_nil] at hr
    cases p with
    | nil => simp [walkOptS] at hw
    | cons s q0 =>
      cases q0 with
      | cons _ _ => cases s <;> simp [walkOptS] at hw
      | nil =>
        cases s with
        | ifrest body =>
          simp only [walkOptS] at hw
          split at hw
          · rename_i hel
            simp only [Option.some.injEq, Prod.mk.injEq] at hw
            obtain ⟨h1', h2', h3'⟩ := hw
            subst h1'; subst h2'; subst h3'
            obtain ⟨L0, B0, hel'⟩ := elemNil_eq _ hel
            cases v with
            | none =>
              simp only [encMember, Option.some.injEq, Prod.mk.injEq] at he
              obtain ⟨hb, henv⟩ := he
              subst hb; subst henv
              have hrs : runStmt ctx (.ifrest body) st = .ok st := by simp [runStmt, hr]
              exact ⟨st, [], by simp only [runBlock, hrs], hr, agree_nil _ _, Fr.refl _ st, by simp [trMember], TrOk.nil st st rfl⟩
            | tuple vs =>
              simp only [encMember] at he
              cases hm : encMembers ms env vs with
              | none => simp [hm] at he
              | some y =>
                obtain ⟨b', e2⟩ := y
                cases b' with
                | nil => simp [hm] at he
                | cons x b' =>
                  simp only [hm, Option.some.injEq, Prod.mk.injEq] at he
                  obtain ⟨hb, henv⟩ := he
                  subst hb; subst henv
                  obtain ⟨st', tr, hrun, hrest, _, _, htr, hto⟩ :=
                    walkMs_sound ctx ms L body L0 B0 .nil hel' hwf env vs (x :: b') e2 [] st hm (by simpa using hr) (Or.inr rfl) ha
                  have hne : st.rest.isEmpty = false := by rw [hr]; rfl
                  have hrs : runStmt ctx (.ifrest body) st = .ok st' := by
                    simp only [runStmt, hne, Bool.false_eq_true, if_false]; rw [hrun]; simp [runBlock]
                  have hfr := runStmt_fr ctx _ st st' hrs
                  exact ⟨st', tr, by simp only [runBlock, hrs], hrest, agree_nil _ _, by simpa [boundS] using hfr, by simp [trMember, htr], hto⟩
            | nat _ => simp [encMember] at he
            | bytes _ => simp [encMember] at he
            | list _ => simp [encMember] at he
          · cases hw
        | _ => simp [walkOptS] at hw
theorem walkB_sound (ctx : Ctx) : ∀ (bs : Branches) (L : List Nat) (var : Nat) (arms : Arms), walkB L var bs arms = true → wfB bs = true →
    ∀ (x : Nat) (env : Env) (vs : List Val) (b : Bytes) (env' : Env) (r : Bytes) (st : St), encBranches bs x env vs = some (b, env') →
      st.env.lookup var = some x → st.rest = b ++ r → (tailFreeB bs = true ∨ r = []) → Agree L env st.env →
      ∃ st' tr, runArms ctx arms st = .ok st' ∧ st'.rest = r ∧ trBranches bs x env vs = some (tr, env') ∧ TrOk st st' tr
  | .els ms, L, var, arms, hw, hwf, x, env, vs, b, env', r, st, he, hlk, hr, htl, ha => by
    cases arms with
    | els body =>
      simp only [walkB] at hw
      obtain ⟨L0, B0, hel'⟩ := elemNil_eq _ hw
      simp only [encBranches] at he
      simp only [wfB] at hwf
      obtain ⟨st', tr, hrun, hrest, _, _, htr, hto⟩ := walkMs_sound ctx ms L body L0 B0 .nil hel' hwf env vs b env' r st he hr (by simpa [tailFreeB] using htl) ha
      exact ⟨st', tr, by simp only [runArms]; rw [hrun]; simp [runBlock], hrest, by simp [trBranches, htr], hto⟩
    | cons _ _ _ => simp [walkB] at hw
  | .cons c ms bs, L, var, arms, hw, hwf, x, env, vs, b, env', r, st, he, hlk, hr, htl, ha => by
    cases arms with
    | els _ => simp [walkB] at hw
    | cons wc body rest =>
      simp only [walkB, Bool.and_eq_true] at hw
      obtain ⟨⟨hco, hel⟩, hrestw⟩ := hw
      simp only [wfB, Bool.and_eq_true] at hwf
      have hh := condOk_holds ctx var c wc st.env x hco hlk
      simp only [encBranches] at he
      have htl' : (tailFree ms = true ∧ tailFreeB bs = true) ∨ r = [] := by
        cases htl with
        | inl h => left; simpa [tailFreeB] using h
        | inr h => right; exact h
      by_cases hc : c.holds x = true
      · simp only [hc, if_true] at he
        obtain ⟨L0, B0, hel'⟩ := elemNil_eq _ hel
        obtain ⟨st', tr, hrun, hrest, _, _, htr, hto⟩ := walkMs_sound ctx ms L body L0 B0 .nil hel' hwf.1 env vs b env' r st he hr
          (htl'.imp (fun h => h.1) id) ha
        exact ⟨st', tr, by simp only [runArms, hh, hc]; rw [hrun]; simp [runBlock], hrest, by simp [trBranches, hc, htr], hto⟩
      · have hc' : c.holds x = false := by simpa using hc
        simp only [hc', Bool.false_eq_true, if_false] at he
        obtain ⟨st', tr, hrun, hrest, htr, hto⟩ := walkB_sound ctx bs L var rest hrestw hwf.2 x env vs b env' r st he hlk hr (htl'.imp (fun h => h.2) id) ha
        exact ⟨st', tr, by simp only [runArms, hh, hc']; exact hrun, hrest, by simp [trBranches, hc', htr], hto⟩
theorem walkMs_sound (ctx : Ctx) : ∀ (ms : Members) (L : List Nat) (p : Block) (L' B : List Nat) (q : Block),
    walkMs L ms p = some (L', B, q) → wfMs ms = true →
    ∀ (env : Env) (vs : List Val) (b : Bytes) (env' : Env) (r : Bytes) (st : St), encMembers ms env vs = some (b, env') → st.rest = b ++ r →
      (tailFree ms = true ∨ r = []) → Agree L env st.env →
      ∃ st' tr, runBlock ctx p st = runBlock ctx q st' ∧ st'.rest = r ∧ Agree L' env' st'.env ∧ Fr B st st' ∧
        trMembers ms env vs = some (tr, env') ∧ TrOk st st' tr
  | .nil, L, p, L', B, q, hw, _, env, vs, b, env', r, st, he, hr, _, ha => by
    simp only [walkMs, Option.some.injEq, Prod.mk.injEq] at hw
    obtain ⟨h1, h2, h3⟩ := hw
    subst h1; subst h2; subst h3
    obtain ⟨hv, hb, henv⟩ := encMembers_nil env vs b env' he
    subst hv; subst hb; subst henv
    exact ⟨st, [], rfl, by simpa using hr, ha, Fr.refl _ st, by simp [trMembers], TrOk.nil st st rfl⟩
  | .cons m ms, L, p, L', B, q, hw, hwf, env, vs, b, env', r, st, he, hr, htl, ha => by
    simp only [walkMs] at hw
    cases h1 : walkM L m p with
    | none => simp [h1] at hw
    | some x1 =>
      obtain ⟨L1, B1, q1⟩ := x1
      cases h2 : walkMs L1 ms q1 with
      | none => simp [h1, h2] at hw
      | some x2 =>
        obtain ⟨L2, B2, q2⟩ := x2
        simp only [h1, h2, Option.some.injEq, Prod.mk.injEq] at hw
        obtain ⟨e1, e2, e3⟩ := hw
        subst e1; subst e2; subst e3
        obtain ⟨hwm, hwms, htf⟩ := wfMs_cons3 m ms hwf
        cases vs with
        | nil => cases m with
          | field id role t => cases role <;> simp [encMembers] at he
          | ifs _ _ => simp [encMembers] at he
          | endless _ _ => simp [encMembers] at he
          | optional _ => simp [encMembers] at he
        | cons v vs =>
          obtain ⟨b1, env1, b2, he1, he2, hb⟩ := encMembers_cons_split m ms env v vs b env' he
          subst hb
          have htl1 : tailFreeM m = true ∨ b2 ++ r = [] := by
            cases ms with
            | nil =>
              obtain ⟨_, hb2, _⟩ := encMembers_nil env1 vs b2 env' he2
              subst hb2
              cases htl with
              | inl h => left; simpa [tailFree] using h
              | inr h => right; simpa using h
            | cons m' ms' => left; exact htf (by simp)
          have htl2 : tailFree ms = true ∨ r = [] := by
            cases htl with
            | inl h => left; simp only [tailFree, Bool.and_eq_true] at h; exact h.2
            | inr h => right; exact h
          obtain ⟨st1, t1, hrun1, hrest1, hag1, hfr1, htr1, hto1⟩ :=
            walkM_sound ctx m L p L1 B1 q1 h1 hwm env v b1 env1 (b2 ++ r) st he1 (by rw [hr, List.append_assoc]) htl1 ha
          obtain ⟨st2, t2, hrun2, hrest2, hag2, hfr2, htr2, hto2⟩ :=
            walkMs_sound ctx ms L1 q1 L2 B2 q2 h2 hwms env1 vs b2 env' r st1 he2 hrest1 htl2 hag1
          exact ⟨st2, t1 ++ t2, by rw [hrun1, hrun2], hrest2, hag2, hfr1.trans hfr2, by simp [trMembers, htr1, htr2], hto1.append hto2⟩
end

/-- **C17 for messages with arrays, conditionals, nested structs and optional tails, all values at once**: if the static matcher accepts
(definition, dissector program), then for EVERY value the walk of its canonical encoding succeeds, reports exactly the fields the definition
prescribes — in definition order, with the definition's widths and (for multi-byte fields) endianness, following the branches the value takes —
and ends exactly at the end of the body -/
theorem walk_full (ctx : Ctx) (c : Members) (p : Block) (hm : walkMatches c p = true) (hw : wfMs c = true) (vs : List Val) (b : Bytes)
    (he : encode c vs = some b) : ∃ tr e tr', trMembers c [] vs = some (tr, e) ∧ run ctx p b = .ok (tr', []) ∧ traceEq tr tr' = true := by
  unfold encode at he
  cases hq : encMembers c [] vs with
  | none => simp [hq] at he
  | some y =>
    obtain ⟨b', env'⟩ := y
    simp [hq] at he
    subst he
    obtain ⟨L0, B0, hel⟩ := elemNil_eq _ hm
    obtain ⟨st', tr, hrun, hrest, _, _, htr, tr', htrace, heq⟩ :=
      walkMs_sound ctx c [] p L0 B0 .nil hel hw [] vs b' env' [] { rest := b' } hq (by simp) (Or.inr rfl) (agree_nil _ _)
    refine ⟨tr, env', tr', htr, ?_, heq⟩
    simp only [run]
    rw [hrun]
    simp only [List.append_nil] at htrace
    simp [runBlock, hrest, htrace]

theorem walk_ends (ctx : Ctx) (c : Members) (p : Block) (hm : walkMatches c p = true) (hw : wfMs c = true) (vs : List Val) (b : Bytes)
    (he : encode c vs = some b) : ∃ tr, run ctx p b = .ok (tr, []) := by
  obtain ⟨_, _, tr', _, hrun, _⟩ := walk_full ctx c p hm hw vs b he
  exact ⟨tr', hrun⟩

/-- the same for direction-wrapped cases (`if (SERVER_TO_CLIENT) { … } else { … }`), in the direction `ctx` -/
theorem walk_full_dir (ctx : Ctx) (c : Members) (p : Block) (hm : walkMatches c (dirBody ctx p) = true) (hw : wfMs c = true) (vs : List Val) (b : Bytes)
    (he : encode c vs = some b) : ∃ tr e tr', trMembers c [] vs = some (tr, e) ∧ run ctx p b = .ok (tr', []) ∧ traceEq tr tr' = true := by
  obtain ⟨tr, e, tr', htr, hrun, heq⟩ := walk_full ctx c (dirBody ctx p) hm hw vs b he
  refine ⟨tr, e, tr', htr, ?_, heq⟩
  unfold run at *
  rw [runBlock_dirBody ctx p]
  exact hrun

theorem walk_ends_dir (ctx : Ctx) (c : Members) (p : Block) (hm : walkMatches c (dirBody ctx p) = true) (hw : wfMs c = true) (vs : List Val) (b : Bytes)
    (he : encode c vs = some b) : ∃ tr, run ctx p b = .ok (tr, []) := by
  obtain ⟨_, _, tr', _, hrun, _⟩ := walk_full_dir ctx c p hm hw vs b he
  exact ⟨tr', hrun⟩

/-! login cases sit inside a `switch (protocol_version)`: the arm of the version in `ctx` -/
def selCase (v : Nat) : Cases → Option Block
  | .nil => Option.none
  | .cons n b rest => if n = v then some b else selCase v rest

def verBody (ctx : Ctx) : Block → Block
  | .cons (.ver cs) .nil => (match selCase ctx.version cs with | some b => b | Option.none => .cons (.ver cs) .nil)
  | p => p

theorem runCases_sel (ctx : Ctx) : ∀ (cs : Cases) (b : Block) (st : St), selCase ctx.version cs = some b → runCases ctx cs st = runBlock ctx b st
  | .nil, b, st, h => by simp [selCase] at h
  | .cons n b0 rest, b, st, h => by
    simp only [selCase] at h
    simp only [runCases]
    split at h
    · rename_i hn
      injection h with h; subst h
      simp [hn]
    · rename_i hn
      simp only [hn, if_false]
      exact runCases_sel ctx rest b st h

theorem runBlock_verBody (ctx : Ctx) (p : Block) (st : St) : runBlock ctx p st = runBlock ctx (verBody ctx p) st := by
  unfold verBody
  split
  · rename_i cs
    cases hs : selCase ctx.version cs with
    | none => rfl
    | some b =>
      simp only [runBlock, runStmt, runCases_sel ctx cs b st hs]
      exact runBlock_nil_right ctx b st
  · rfl

/-- … for a login case: the arm of the protocol version, then the arm of the direction -/
theorem walk_full_login (ctx : Ctx) (c : Members) (p : Block) (hm : walkMatches c (dirBody ctx (verBody ctx p)) = true) (hw : wfMs c = true)
    (vs : List Val) (b : Bytes) (he : encode c vs = some b) :
    ∃ tr e tr', trMembers c [] vs = some (tr, e) ∧ run ctx p b = .ok (tr', []) ∧ traceEq tr tr' = true := by
  obtain ⟨tr, e, tr', htr, hrun, heq⟩ := walk_full_dir ctx c (verBody ctx p) hm hw vs b he
  refine ⟨tr, e, tr', htr, ?_, heq⟩
  unfold run at *
  rw [runBlock_verBody ctx p]
  exact hrun

theorem walk_ends_login (ctx : Ctx) (c : Members) (p : Block) (hm : walkMatches c (dirBody ctx (verBody ctx p)) = true) (hw : wfMs c = true)
    (vs : List Val) (b : Bytes) (he : encode c vs = some b) : ∃ tr, run ctx p b = .ok (tr, []) := by
  obtain ⟨_, _, tr', _, hrun, _⟩ := walk_full_login ctx c p hm hw vs b he
  exact ⟨tr', hrun⟩

/-- non-vacuity: `u8 n; struct { u16 a; CString s; }[n] xs; u8 kind; if (kind == 1) { u32 x; } else { u8 y; }  u8[-] rest;` against its program -/
example :
    let elem : Members := .cons (.field 10 .plain (.leaf (.int 2 .le))) (.cons (.field 11 .plain (.leaf .cstring)) .nil)
    let c : Members :=
      .cons (.field 1 .plain (.leaf (.int 1 .le)))
        (.cons (.field 2 .plain (.arrVar 1 (.struct elem)))
          (.cons (.field 3 .plain (.leaf (.enumT 1 .le [0, 1])))
            (.cons (.ifs 3 (.cons (.eq [1]) (.cons (.field 4 .plain (.leaf (.int 4 .le))) .nil) (.els (.cons (.field 5 .plain (.leaf (.int 1 .le))) .nil))))
              (.cons (.endless 6 (.leaf (.int 1 .le))) .nil))))
    let p : Block :=
      .cons (.ret 1 .na 1)
        (.cons (.forv 1 (.cons (.add 2 .le) (.cons .cstr .nil)))
          (.cons (.ret 1 .na 3)
            (.cons (.ifs (.cons (.eq 3 [1]) (.cons (.add 4 .le) .nil) (.els (.cons (.add 1 .na) .nil))))
              (.cons (.addrest .na) .nil))))
    walkMatches c p = true ∧ wfMs c = true := by decide

/-- … and a program that loops over the wrong variable, or tests another variable, is refused -/
example :
    walkMatches (.cons (.field 1 .plain (.leaf (.int 1 .le))) (.cons (.field 7 .plain (.leaf (.int 1 .le))) (.cons (.field 2 .plain (.arrVar 1 (.leaf (.int 4 .le)))) .nil)))
      (.cons (.ret 1 .na 1) (.cons (.ret 1 .na 7) (.cons (.forv 7 (.cons (.add 4 .le) .nil)) .nil))) = false := by decide

end WowVerif.Wireshark

open WowVerif.Wireshark in
#print axioms walkMs_sound
open WowVerif.Wireshark in
#print axioms walk_ends
open WowVerif.Wireshark in
#print axioms walk_ends_dir
open WowVerif.Wireshark in
#print axioms walk_ends_login
open WowVerif.Wireshark in
#print axioms walk_full
open WowVerif.Wireshark in
#print axioms walk_full_dir
open WowVerif.Wireshark in
#print axioms walk_full_login
