/-
C12 — generated flag types obey set algebra over exactly their declared bits.

`itemOk` (Model/Flag.lean) is evaluated on every method body extracted from the generated Rust; the theorems below
say what a `true` verdict means **for every raw value** of the flag's integer width.
-/
import WowVerif.Model.Flag
namespace WowVerif.Flag

private theorem eval_bit {w : Nat} (env : Env w) (e : BitExpr) (h : e.isBitwise = true) (i : Nat) (hi : i < w) :
    (e.eval env).getLsbD i = e.bit i (env.inner.getLsbD i) (env.rhs.getLsbD i) (env.arg.getLsbD i) := by
  induction e with
  | inner => rfl
  | rhs => rfl
  | arg => rfl
  | const n => simp only [BitExpr.eval, BitExpr.bit, BitVec.getLsbD_ofNat]; simp [hi]
  | and a b iha ihb =>
    simp only [BitExpr.isBitwise, Bool.and_eq_true] at h
    simp only [BitExpr.eval, BitExpr.bit, BitVec.getLsbD_and, iha h.1, ihb h.2]
  | or a b iha ihb =>
    simp only [BitExpr.isBitwise, Bool.and_eq_true] at h
    simp only [BitExpr.eval, BitExpr.bit, BitVec.getLsbD_or, iha h.1, ihb h.2]
  | xor a b iha ihb =>
    simp only [BitExpr.isBitwise, Bool.and_eq_true] at h
    simp only [BitExpr.eval, BitExpr.bit, BitVec.getLsbD_xor, iha h.1, ihb h.2]
  | not a iha =>
    simp only [BitExpr.isBitwise] at h
    simp only [BitExpr.eval, BitExpr.bit, BitVec.getLsbD_not, iha h]; simp [hi]
  | rev a _ => simp [BitExpr.isBitwise] at h
  | unknown => simp [BitExpr.isBitwise] at h

private theorem mem_bools (b : Bool) : b ∈ bools := by cases b <;> simp [bools]

/-- **Soundness of the bitwise decision procedure**: a `true` verdict means equality on every environment. -/
theorem bwEquiv_sound {w : Nat} (a b : BitExpr) (h : bwEquiv w a b = true) (env : Env w) :
    a.eval env = b.eval env := by
  simp only [bwEquiv, Bool.and_eq_true, List.all_eq_true, beq_iff_eq] at h
  obtain ⟨⟨ha, hb⟩, hall⟩ := h
  apply BitVec.eq_of_getLsbD_eq
  intro i hi
  rw [eval_bit env a ha i hi, eval_bit env b hb i hi]
  exact hall i (List.mem_range.mpr hi) _ (mem_bools _) _ (mem_bools _) _ (mem_bools _)

variable {w : Nat}

/-- set adds exactly the enumerator's bits -/
theorem set_sound (v allV : Nat) (zav : Bool) (e : BitExpr) (h : itemOk w .setQ v allV zav (.val e) = true)
    (x r a : BitVec w) : e.eval ⟨x, r, a⟩ = x ||| BitVec.ofNat w v := by
  simp only [itemOk, specVal] at h; exact bwEquiv_sound _ _ h _

/-- clear removes exactly the enumerator's bits and leaves every other bit unchanged -/
theorem clear_sound (v allV : Nat) (zav : Bool) (e : BitExpr) (h : itemOk w .clearQ v allV zav (.val e) = true)
    (x r a : BitVec w) : e.eval ⟨x, r, a⟩ = x &&& ~~~(BitVec.ofNat w v) := by
  simp only [itemOk, specVal] at h; exact bwEquiv_sound _ _ h _

theorem new_enumerator_sound (v allV : Nat) (zav : Bool) (e : BitExpr) (h : itemOk w .newQ v allV zav (.val e) = true)
    (x r a : BitVec w) : e.eval ⟨x, r, a⟩ = BitVec.ofNat w v := by
  simp only [itemOk, specVal] at h; exact bwEquiv_sound _ _ h _

theorem empty_sound (v allV : Nat) (zav : Bool) (e : BitExpr) (h : itemOk w .empty v allV zav (.val e) = true)
    (x r a : BitVec w) : e.eval ⟨x, r, a⟩ = 0 := by
  simp only [itemOk, specVal] at h
  have := bwEquiv_sound _ _ h ⟨x, r, a⟩
  simpa [BitExpr.eval] using this

theorem all_sound (v allV : Nat) (zav : Bool) (e : BitExpr) (h : itemOk w .all v allV zav (.val e) = true)
    (x r a : BitVec w) : e.eval ⟨x, r, a⟩ = BitVec.ofNat w allV := by
  simp only [itemOk, specVal] at h; exact bwEquiv_sound _ _ h _

theorem new_sound (v allV : Nat) (zav : Bool) (e : BitExpr) (h : itemOk w .new v allV zav (.val e) = true)
    (x r a : BitVec w) : e.eval ⟨x, r, a⟩ = a := by
  simp only [itemOk, specVal] at h; exact bwEquiv_sound _ _ h _

theorem asInt_sound (v allV : Nat) (zav : Bool) (e : BitExpr) (h : itemOk w .asInt v allV zav (.val e) = true)
    (x r a : BitVec w) : e.eval ⟨x, r, a⟩ = x := by
  simp only [itemOk, specVal] at h; exact bwEquiv_sound _ _ h _

theorem opAnd_sound (v allV : Nat) (zav : Bool) (e : BitExpr) (h : itemOk w .opAnd v allV zav (.val e) = true)
    (x r a : BitVec w) : e.eval ⟨x, r, a⟩ = x &&& r := by
  simp only [itemOk, specVal] at h; exact bwEquiv_sound _ _ h _

theorem opOr_sound (v allV : Nat) (zav : Bool) (e : BitExpr) (h : itemOk w .opOr v allV zav (.val e) = true)
    (x r a : BitVec w) : e.eval ⟨x, r, a⟩ = x ||| r := by
  simp only [itemOk, specVal] at h; exact bwEquiv_sound _ _ h _

theorem opXor_sound (v allV : Nat) (zav : Bool) (e : BitExpr) (h : itemOk w .opXor v allV zav (.val e) = true)
    (x r a : BitVec w) : e.eval ⟨x, r, a⟩ = x ^^^ r := by
  simp only [itemOk, specVal] at h; exact bwEquiv_sound _ _ h _

/-- the is-query reports exactly whether the enumerator's bits intersect the value
(or the value is zero, for flags declared zero_is_always_valid) -/
theorem is_sound (v allV : Nat) (zav : Bool) (b : BoolBody) (h : itemOk w .isQ v allV zav (.test b) = true)
    (x r a : BitVec w) :
    b.eval ⟨x, r, a⟩ = ((x &&& BitVec.ofNat w v != 0) || (zav && x == 0)) := by
  match b, h with
  | .ne0 e, h =>
    simp only [itemOk, Bool.and_eq_true, Bool.not_eq_true'] at h
    have := bwEquiv_sound _ _ h.2 ⟨x, r, a⟩
    simp [BoolBody.eval, this, BitExpr.eval, h.1]
  | .orB (.ne0 e) (.eq0 z), h =>
    simp only [itemOk, Bool.and_eq_true] at h
    have h1 := bwEquiv_sound _ _ h.1.2 ⟨x, r, a⟩
    have h2 := bwEquiv_sound _ _ h.2 ⟨x, r, a⟩
    simp [BoolBody.eval, h1, h2, BitExpr.eval, h.1.1]
  | .eq0 _, h => simp [itemOk] at h
  | .unknown, h => simp [itemOk] at h
  | .orB (.ne0 _) (.ne0 _), h => simp [itemOk] at h
  | .orB (.ne0 _) (.orB _ _), h => simp [itemOk] at h
  | .orB (.ne0 _) .unknown, h => simp [itemOk] at h
  | .orB (.eq0 _) _, h => simp [itemOk] at h
  | .orB (.orB _ _) _, h => simp [itemOk] at h
  | .orB .unknown _, h => simp [itemOk] at h

theorem isEmpty_sound (v allV : Nat) (zav : Bool) (b : BoolBody) (h : itemOk w .isEmpty v allV zav (.test b) = true)
    (x r a : BitVec w) : b.eval ⟨x, r, a⟩ = (x == 0) := by
  match b, h with
  | .eq0 z, h =>
    simp only [itemOk] at h
    have := bwEquiv_sound _ _ h ⟨x, r, a⟩
    simp [BoolBody.eval, this, BitExpr.eval]
  | .ne0 _, h => simp [itemOk] at h
  | .orB _ _, h => simp [itemOk] at h
  | .unknown, h => simp [itemOk] at h

/-! ### non-vacuity: the printer's current bodies, and what the checker says about them -/
example : itemOk 32 .setQ 0x20 0xFFFF false (.val (.or .inner (.const 0x20))) = true := by decide
example : itemOk 32 .clearQ 0x20 0xFFFF false (.val (.and .inner (.not (.const 0x20)))) = true := by decide
example : itemOk 32 .isQ 0x20 0xFFFF false (.test (.ne0 (.and .inner (.const 0x20)))) = true := by decide
example : itemOk 8 .isQ 0x20 0xFF true (.test (.orB (.ne0 (.and .inner (.const 0x20))) (.eq0 .inner))) = true := by decide
/-- a semantically equal rewrite is accepted (no false alarm on harmless refactoring) -/
example : itemOk 16 .clearQ 0x20 0xFFFF false (.val (.xor .inner (.and .inner (.const 0x20)))) = true := by decide
/-- `x & C.reverse_bits()` is rejected, and indeed differs: CastFlags 0xFFFF, AMMO = 0x20 gives 0x0400, not 0xFFDF -/
example : itemOk 16 .clearQ 0x20 0xFFFF false (.val (.and .inner (.rev (.const 0x20)))) = false := by decide
example : (BitExpr.and .inner (.rev (.const 0x20))).eval? (w := 16) ⟨0xFFFF, 0, 0⟩ = some 0x0400#16 := by decide

end WowVerif.Flag

open WowVerif.Flag in
#print axioms bwEquiv_sound
open WowVerif.Flag in
#print axioms set_sound
open WowVerif.Flag in
#print axioms clear_sound
open WowVerif.Flag in
#print axioms new_enumerator_sound
open WowVerif.Flag in
#print axioms empty_sound
open WowVerif.Flag in
#print axioms all_sound
open WowVerif.Flag in
#print axioms new_sound
open WowVerif.Flag in
#print axioms asInt_sound
open WowVerif.Flag in
#print axioms opAnd_sound
open WowVerif.Flag in
#print axioms opOr_sound
open WowVerif.Flag in
#print axioms opXor_sound
open WowVerif.Flag in
#print axioms is_sound
open WowVerif.Flag in
#print axioms isEmpty_sound
