/-
C17 — straight-line messages: a STATIC matcher between a definition and its dissector program, and its soundness for every
canonical encoding.  `flatMatches c p = true` is decided once per message on the translated program; the theorem then covers
all values at once (no enumeration): the walk of every canonical encoding reports the prescribed fields and stops exactly at
the end.  Messages with conditionals, arrays, optional tails or the length-prefixed / packed leaves are outside this fragment
and stay decided by interpretation (checks/c17.py).
-/
import WowVerif.Thm.C17b
namespace WowVerif.Wireshark
open WowVerif.Sem

/-- width of a fixed-width leaf -/
def fixedWidth : Leaf → Option Nat
  | .int k _ => some k
  | .bool k => some k
  | .enumT k _ _ => some k
  | .lvl k => some k
  | .dateTime => some 4
  | _ => none

def encOk (l : Leaf) (k : Nat) (e : Enc) : Bool := k ≤ 1 || e == encOf l

/-- does the statement walk this leaf? -/
def stmtOk (l : Leaf) : Stmt → Bool
  | .add n e => (match fixedWidth l with | some k => n == k && encOk l k e | none => false)
  | .ret n e _ => (match fixedWidth l with | some k => n == k && encOk l k e | none => false)
  | .cstr => (match l with | .cstring => true | _ => false)
  | .scstr => (match l with | .sizedCString => true | _ => false)
  | .str => (match l with | .string => true | _ => false)
  | .pguid => (match l with | .packedGuid => true | _ => false)
  | _ => false

def plainRole : Role → Bool
  | .selfSize => false
  | _ => true

/-- definitions inside the fragment: plain fields of fixed-width leaves and C strings only -/
def isFlat : Members → Bool
  | .nil => true
  | .cons (.field _ role (.leaf l)) ms => plainRole role && ((fixedWidth l).isSome || (match l with | .cstring => true | .sizedCString => true | .packedGuid => true | _ => false)) && isFlat ms
  | _ => false

/-- the static matcher for straight-line definitions -/
def flatMatches : Members → Block → Bool
  | .nil, .nil => true
  | .cons (.field _ role (.leaf l)) ms, .cons s p => plainRole role && stmtOk l s && flatMatches ms p
  | _, _ => false

theorem encInt_len (k : Nat) (e : Endian) (n : Nat) (b : Bytes) (h : encInt k e n = some b) : b.length = k := by
  unfold encInt at h
  split at h
  · injection h with h; subst h; cases e <;> simp
  · cases h

theorem fixed_len (l : Leaf) (v : Val) (b : Bytes) (k : Nat) (hk : fixedWidth l = some k) (h : encLeaf l v = some b) : b.length = k := by
  cases l with
  | int k' e =>
    simp only [fixedWidth, Option.some.injEq] at hk; subst hk
    cases v <;> simp only [encLeaf] at h <;> first | exact encInt_len _ _ _ _ h | cases h
  | bool k' =>
    simp only [fixedWidth, Option.some.injEq] at hk; subst hk
    cases v with
    | nat n => simp only [encLeaf] at h; split at h; exact encInt_len _ _ _ _ h; cases h
    | bytes _ => simp only [encLeaf] at h <;> cases h
    | tuple _ => simp only [encLeaf] at h <;> cases h
    | list _ => simp only [encLeaf] at h <;> cases h
    | none => simp only [encLeaf] at h <;> cases h
  | enumT k' e vals =>
    simp only [fixedWidth, Option.some.injEq] at hk; subst hk
    cases v with
    | nat n => simp only [encLeaf] at h; split at h; exact encInt_len _ _ _ _ h; cases h
    | bytes _ => simp only [encLeaf] at h <;> cases h
    | tuple _ => simp only [encLeaf] at h <;> cases h
    | list _ => simp only [encLeaf] at h <;> cases h
    | none => simp only [encLeaf] at h <;> cases h
  | lvl k' =>
    simp only [fixedWidth, Option.some.injEq] at hk; subst hk
    cases v with
    | nat n => simp only [encLeaf] at h; split at h; exact encInt_len _ _ _ _ h; cases h
    | bytes _ => simp only [encLeaf] at h <;> cases h
    | tuple _ => simp only [encLeaf] at h <;> cases h
    | list _ => simp only [encLeaf] at h <;> cases h
    | none => simp only [encLeaf] at h <;> cases h
  | dateTime =>
    simp only [fixedWidth, Option.some.injEq] at hk; subst hk
    cases v with
    | nat n => simp only [encLeaf] at h; split at h; exact encInt_len _ _ _ _ h; cases h
    | bytes _ => simp only [encLeaf] at h <;> cases h
    | tuple _ => simp only [encLeaf] at h <;> cases h
    | list _ => simp only [encLeaf] at h <;> cases h
    | none => simp only [encLeaf] at h <;> cases h
  | cstring => simp [fixedWidth] at hk
  | sizedCString => simp [fixedWidth] at hk
  | string => simp [fixedWidth] at hk
  | packedGuid => simp [fixedWidth] at hk
  | prim _ => simp [fixedWidth] at hk

theorem zeroIndex_append (s r : Bytes) (h : s.contains 0 = false) : zeroIndex (s ++ 0 :: r) = some s.length := by
  induction s with
  | nil => simp [zeroIndex]
  | cons x xs ih =>
    simp only [List.contains_cons, Bool.or_eq_false_iff] at h
    have hx : (x == 0) = false := by
      cases hh : (x == 0) with
      | false => rfl
      | true =>
        have hx0 : x = 0 := by simpa using hh
        subst hx0
        simp at h
    simp only [List.cons_append, zeroIndex, hx, ih h.2, Option.map_some, List.length_cons]
    rfl

def countTrue : List Bool → Nat
  | [] => 0
  | b :: bs => (if b then 1 else 0) + countTrue bs

theorem pop8 : ∀ b0 b1 b2 b3 b4 b5 b6 b7 : Bool,
    popCount8 (bitsToNat [b0, b1, b2, b3, b4, b5, b6, b7]) = countTrue [b0, b1, b2, b3, b4, b5, b6, b7] ∧ bitsToNat [b0, b1, b2, b3, b4, b5, b6, b7] < 256 := by
  decide

theorem packBytes_spec : ∀ (bs : Bytes), (packBytes bs).1.length = bs.length ∧ (packBytes bs).2.length = countTrue (packBytes bs).1
  | [] => by simp [packBytes, countTrue]
  | b :: bs => by
      have ih := packBytes_spec bs
      simp only [packBytes]
      split <;> simp [countTrue, ih.1, ih.2] <;> omega

theorem pop8_list (m : List Bool) (h : m.length = 8) : popCount8 (bitsToNat m) = countTrue m ∧ bitsToNat m < 256 := by
  match m, h with
  | [b0, b1, b2, b3, b4, b5, b6, b7], _ => exact pop8 b0 b1 b2 b3 b4 b5 b6 b7

theorem take_exact (n : Nat) (e : Enc) (st : St) (b r : Bytes) (hr : st.rest = b ++ r) (hn : b.length = n) :
    take n e st = .ok (b, { st with rest := r, trace := (n, e) :: st.trace }) := by
  unfold take
  have hle : n ≤ st.rest.length := by rw [hr]; simp; omega
  simp only [hle, if_true]
  have h1 : st.rest.take n = b := by rw [hr, ← hn]; simp
  have h2 : st.rest.drop n = r := by rw [hr, ← hn]; simp
  rw [h1, h2]

theorem entry_ok (l : Leaf) (k : Nat) (e : Enc) (h : encOk l k e = true) : entryEq (k, encOf l) (k, e) = true := by
  unfold encOk at h
  unfold entryEq
  simp only [beq_self_eq_true, Bool.true_and]
  cases hk : decide (k ≤ 1) with
  | true => simp at hk; simp [hk]
  | false =>
    simp at hk
    have : ¬ k ≤ 1 := by omega
    simp [this] at h
    simp [h]

/-- one leaf, one statement: the statement consumes exactly the leaf's encoding and reports an entry equal (up to the
endianness of one-byte fields) to the prescribed one -/
theorem stmt_leaf (ctx : Ctx) (l : Leaf) (s : Stmt) (v : Val) (b r : Bytes) (st : St)
    (hs : stmtOk l s = true) (he : encLeaf l v = some b) (hr : st.rest = b ++ r) :
    ∃ st' e', runStmt ctx s st = .ok st' ∧ st'.rest = r ∧ st'.trace = (b.length, e') :: st.trace ∧
      entryEq (b.length, encOf l) (b.length, e') = true := by
  cases s with
  | add n e =>
    simp only [stmtOk] at hs
    cases hk : fixedWidth l with
    | none => simp [hk] at hs
    | some k =>
      simp only [hk, Bool.and_eq_true, beq_iff_eq] at hs
      obtain ⟨hn, hok⟩ := hs
      subst hn
      have hlen := fixed_len l v b n hk he
      refine ⟨{ st with rest := r, trace := (n, e) :: st.trace }, e, ?_, rfl, by simp [hlen], by rw [hlen]; exact entry_ok l n e hok⟩
      simp only [runStmt, take_exact n e st b r hr hlen, Except.map]
  | ret n e var =>
    simp only [stmtOk] at hs
    cases hk : fixedWidth l with
    | none => simp [hk] at hs
    | some k =>
      simp only [hk, Bool.and_eq_true, beq_iff_eq] at hs
      obtain ⟨hn, hok⟩ := hs
      subst hn
      have hlen := fixed_len l v b n hk he
      refine ⟨{ st with rest := r, trace := (n, e) :: st.trace, env := (var, valOf e b) :: st.env }, e, ?_, rfl, by simp [hlen], by rw [hlen]; exact entry_ok l n e hok⟩
      simp only [runStmt, take_exact n e st b r hr hlen]
  | cstr =>
    cases l <;> simp [stmtOk] at hs
    cases v with
    | bytes sv =>
      simp only [encLeaf] at he
      split at he
      · cases he
      · rename_i hc
        injection he with he
        subst he
        have hc' : sv.contains 0 = false := by simpa using hc
        have hz : zeroIndex st.rest = some sv.length := by
          rw [hr]; simpa using zeroIndex_append sv r hc'
        have hlen : (sv ++ [0]).length = sv.length + 1 := by simp
        refine ⟨{ st with rest := r, trace := (sv.length + 1, .na) :: st.trace }, .na, ?_, rfl, by simp, by simp [entryEq, encOf]⟩
        simp only [runStmt, hz, take_exact (sv.length + 1) .na st (sv ++ [0]) r hr hlen, Except.map]
    | nat _ => simp [encLeaf] at he
    | tuple _ => simp [encLeaf] at he
    | list _ => simp [encLeaf] at he
    | none => simp [encLeaf] at he
  | scstr =>
    cases l <;> simp [stmtOk] at hs
    cases v with
    | bytes sv =>
      simp only [encLeaf] at he
      split at he
      · cases he
      · cases hh : encInt 4 .le (sv.length + 1) with
        | none => simp [hh] at he
        | some hb =>
          simp only [hh, Option.map_some, Option.some.injEq] at he
          subst he
          have hlen4 := encInt_len 4 .le _ hb hh
          have hval : decLE hb = sv.length + 1 := by
            unfold encInt at hh
            split at hh
            · rename_i hlt
              injection hh with hh; subst hh
              exact decLE_encLE 4 _ hlt
            · cases hh
          have htake : st.rest.take 4 = hb := by rw [hr, ← hlen4]; simp
          have hge : 4 ≤ st.rest.length := by rw [hr]; simp; omega
          have hlen : (hb ++ sv ++ [0]).length = 4 + (sv.length + 1) := by simp [hlen4]
          refine ⟨{ st with rest := r, trace := (4 + (sv.length + 1), .na) :: st.trace }, .na, ?_, rfl, by rw [hlen], by simp [entryEq, encOf]⟩
          simp only [runStmt, hge, if_true, htake, hval, take_exact (4 + (sv.length + 1)) .na st (hb ++ sv ++ [0]) r hr hlen, Except.map]
    | nat _ => simp [encLeaf] at he
    | tuple _ => simp [encLeaf] at he
    | list _ => simp [encLeaf] at he
    | none => simp [encLeaf] at he
  | str =>
    cases l <;> simp [stmtOk] at hs
    cases v with
    | bytes sv =>
      simp only [encLeaf] at he
      cases hh : encInt 1 .le sv.length with
      | none => simp [hh] at he
      | some hb =>
        simp only [hh, Option.map_some, Option.some.injEq] at he
        subst he
        have hlen1 := encInt_len 1 .le _ hb hh
        have hval : decLE hb = sv.length := by
          unfold encInt at hh
          split at hh
          · rename_i hlt
            injection hh with hh; subst hh
            exact decLE_encLE 1 _ hlt
          · cases hh
        have htake : st.rest.take 1 = hb := by rw [hr, ← hlen1]; simp
        have hge : 1 ≤ st.rest.length := by rw [hr]; simp; omega
        have hlen : (hb ++ sv).length = 1 + sv.length := by simp [hlen1]
        refine ⟨{ st with rest := r, trace := (1 + sv.length, .na) :: st.trace }, .na, ?_, rfl, by rw [hlen], by simp [entryEq, encOf]⟩
        simp only [runStmt, hge, if_true, htake, hval, take_exact (1 + sv.length) .na st (hb ++ sv) r hr hlen, Except.map]
    | nat _ => simp [encLeaf] at he
    | tuple _ => simp [encLeaf] at he
    | list _ => simp [encLeaf] at he
    | none => simp [encLeaf] at he
  | pguid =>
    cases l <;> simp [stmtOk] at hs
    cases v with
    | nat n =>
      simp only [encLeaf] at he
      split at he
      · have hspec := packBytes_spec (encLE 8 n)
        cases hpb : packBytes (encLE 8 n) with
        | mk m pl =>
          simp only [hpb] at he hspec
          injection he with he
          subst he
          have hm8 : m.length = 8 := by simpa using hspec.1
          obtain ⟨hpop, hlt⟩ := pop8_list m hm8
          have hmask : (UInt8.ofNat (bitsToNat m)).toNat = bitsToNat m := by
            simp [UInt8.toNat_ofNat]; omega
          have hge : 1 ≤ st.rest.length := by rw [hr]; simp
          have htake : st.rest.take 1 = [UInt8.ofNat (bitsToNat m)] := by rw [hr]; simp
          have hdec : decLE [UInt8.ofNat (bitsToNat m)] = bitsToNat m := by simp [decLE, hmask]
          have hlen : (UInt8.ofNat (bitsToNat m) :: pl).length = 1 + popCount8 (bitsToNat m) := by
            simp [hspec.2, hpop]; omega
          refine ⟨{ st with rest := r, trace := (1 + popCount8 (bitsToNat m), .na) :: st.trace }, .na, ?_, rfl, by simp [hlen], by simp [entryEq, encOf]⟩
          simp only [runStmt, hge, if_true, htake, hdec, take_exact (1 + popCount8 (bitsToNat m)) .na st _ r hr hlen, Except.map]
      · cases he
    | bytes _ => simp [encLeaf] at he
    | tuple _ => simp [encLeaf] at he
    | list _ => simp [encLeaf] at he
    | none => simp [encLeaf] at he
  | _ => simp [stmtOk] at hs

theorem plain_not_selfSize (id : Nat) (role : Role) (t : Ty) (h : plainRole role = true) : isSelfSize (.field id role t) = false := by
  cases role <;> simp [plainRole, isSelfSize] at *

/-- **soundness of the static matcher**: for every value, the walk of the canonical encoding (followed by anything) consumes
exactly the encoding and reports the prescribed fields -/
theorem flat_sound (ctx : Ctx) : ∀ (c : Members) (p : Block), flatMatches c p = true →
    ∀ (env : Env) (vs : List Val) (b : Bytes) (env' : Env) (tr : Trace) (e2 : Env) (r : Bytes) (st : St),
      encMembers c env vs = some (b, env') → trMembers c env vs = some (tr, e2) → st.rest = b ++ r →
      ∃ st' tr', runBlock ctx p st = .ok st' ∧ st'.rest = r ∧ st'.trace = tr'.reverse ++ st.trace ∧ traceEq tr tr' = true
  | .nil, .nil, _, env, vs, b, env', tr, e2, r, st, he, ht, hr => by
      obtain ⟨hv, hb, _⟩ := encMembers_nil env vs b env' he
      subst hv; subst hb
      simp only [trMembers, Option.some.injEq, Prod.mk.injEq] at ht
      obtain ⟨ht1, _⟩ := ht
      subst ht1
      exact ⟨st, [], by simp [runBlock], by simpa using hr, by simp, by simp [traceEq]⟩
  | .cons (.field id role (.leaf l)) ms, .cons s p, hm, env, vs, b, env', tr, e2, r, st, he, ht, hr => by
      simp only [flatMatches, Bool.and_eq_true] at hm
      obtain ⟨⟨hrole, hst⟩, hrest⟩ := hm
      cases vs with
      | nil => simp [trMembers] at ht
      | cons v vs =>
        rw [encMembers_cons_general _ ms env v vs (plain_not_selfSize id role (.leaf l) hrole)] at he
        have hm1 : encMember (.field id role (.leaf l)) env v =
            (if roleOk role v then (encLeaf l v).map fun b => (b, env.bind id v) else none) := by
          simp only [encMember, encTy]
        rw [hm1] at he
        by_cases hro : roleOk role v = true
        · simp only [hro, if_true] at he
          cases hl : encLeaf l v with
          | none => simp [hl] at he
          | some b1 =>
            simp only [hl, Option.map_some] at he
            cases he2 : encMembers ms (env.bind id v) vs with
            | none => simp [he2] at he
            | some q =>
              obtain ⟨b2, env2⟩ := q
              simp only [he2, Option.some.injEq, Prod.mk.injEq] at he
              obtain ⟨hb, _⟩ := he
              subst hb
              have ht1 : trMember (.field id role (.leaf l)) env v = some ([(b1.length, encOf l)], env.bind id v) := by
                simp only [trMember, trTy, hl, Option.map_some]
              simp only [trMembers, ht1] at ht
              cases ht2 : trMembers ms (env.bind id v) vs with
              | none => simp [ht2] at ht
              | some q2 =>
                obtain ⟨t2, e3⟩ := q2
                simp only [ht2, Option.some.injEq, Prod.mk.injEq] at ht
                obtain ⟨htr, _⟩ := ht
                subst htr
                have hr1 : st.rest = b1 ++ (b2 ++ r) := by rw [hr, List.append_assoc]
                obtain ⟨st1, e', hrun1, hrest1, htrace1, hent⟩ := stmt_leaf ctx l s v b1 (b2 ++ r) st hst hl hr1
                obtain ⟨st2, tr2, hrun2, hrest2, htrace2, heq2⟩ :=
                  flat_sound ctx ms p hrest (env.bind id v) vs b2 env2 t2 e3 r st1 he2 ht2 hrest1
                refine ⟨st2, (b1.length, e') :: tr2, ?_, hrest2, ?_, ?_⟩
                · simp only [runBlock, hrun1, hrun2]
                · rw [htrace2, htrace1]; simp
                · simp only [List.singleton_append, List.cons_append, List.nil_append, traceEq, hent, heq2, Bool.and_self]
        · simp only [hro] at he
          cases he
  | .nil, .cons _ _, hm, _, _, _, _, _, _, _, _, _, _, _ => by simp [flatMatches] at hm
  | .cons (.field _ _ (.struct _)) _, _, hm, _, _, _, _, _, _, _, _, _, _, _ => by simp [flatMatches] at hm
  | .cons (.field _ _ (.arrFixed _ _)) _, _, hm, _, _, _, _, _, _, _, _, _, _, _ => by simp [flatMatches] at hm
  | .cons (.field _ _ (.arrVar _ _)) _, _, hm, _, _, _, _, _, _, _, _, _, _, _ => by simp [flatMatches] at hm
  | .cons (.ifs _ _) _, _, hm, _, _, _, _, _, _, _, _, _, _, _ => by simp [flatMatches] at hm
  | .cons (.endless _ _) _, _, hm, _, _, _, _, _, _, _, _, _, _, _ => by simp [flatMatches] at hm
  | .cons (.optional _) _, _, hm, _, _, _, _, _, _, _, _, _, _, _ => by simp [flatMatches] at hm
  | .cons (.field _ _ (.leaf _)) _, .nil, hm, _, _, _, _, _, _, _, _, _, _, _ => by simp [flatMatches] at hm

/-- **C17 for straight-line messages, all values at once**: if the static matcher accepts (definition, dissector program), then
for EVERY value the walk of its canonical encoding ends exactly at the end of the body and reports the prescribed field list -/
theorem flat_walk (ctx : Ctx) (c : Members) (p : Block) (hm : flatMatches c p = true) (vs : List Val) (b : Bytes) (tr : Trace) (e : Env)
    (he : encode c vs = some b) (ht : trMembers c [] vs = some (tr, e)) :
    ∃ tr', run ctx p b = .ok (tr', []) ∧ traceEq tr tr' = true := by
  unfold encode at he
  cases hq : encMembers c [] vs with
  | none => simp [hq] at he
  | some q =>
    obtain ⟨b', env'⟩ := q
    simp [hq] at he
    subst he
    obtain ⟨st', tr', hrun, hrest, htrace, heq⟩ := flat_sound ctx c p hm [] vs b' env' tr e [] { rest := b' } hq ht (by simp)
    refine ⟨tr', ?_, heq⟩
    simp only [run, hrun]
    simp only [List.append_nil] at htrace
    rw [htrace, hrest]
    simp

/-- MSG_* cases serve both directions: `if (SERVER_TO_CLIENT) { … } else { … }` around two straight-line bodies -/
def dirBody (ctx : Ctx) : Block → Block
  | .cons (.ifs (.cons .s2c b1 (.els b2))) .nil => if ctx.s2c then b1 else b2
  | p => p

theorem runBlock_nil_right (ctx : Ctx) : ∀ (p : Block) (st : St), (match runBlock ctx p st with | .error x => .error x | .ok st' => runBlock ctx .nil st') = runBlock ctx p st := by
  intro p st
  cases runBlock ctx p st <;> simp [runBlock]

theorem runBlock_dirBody (ctx : Ctx) (p : Block) (st : St) : runBlock ctx p st = runBlock ctx (dirBody ctx p) st := by
  unfold dirBody
  split
  · rename_i b1 b2
    simp only [runBlock, runStmt, runArms, WCond.holds]
    cases hs : ctx.s2c
    · simp only [Bool.false_eq_true, if_false]
      exact runBlock_nil_right ctx b2 st
    · simp only [if_true]
      exact runBlock_nil_right ctx b1 st
  · rfl

def flatMatchesDir (ctx : Ctx) (c : Members) (p : Block) : Bool := flatMatches c (dirBody ctx p)

/-- the same for direction-wrapped cases, in the direction `ctx` -/
theorem flat_walk_dir (ctx : Ctx) (c : Members) (p : Block) (hm : flatMatchesDir ctx c p = true) (vs : List Val) (b : Bytes) (tr : Trace) (e : Env)
    (he : encode c vs = some b) (ht : trMembers c [] vs = some (tr, e)) :
    ∃ tr', run ctx p b = .ok (tr', []) ∧ traceEq tr tr' = true := by
  obtain ⟨tr', hrun, heq⟩ := flat_walk ctx c (dirBody ctx p) hm vs b tr e he ht
  refine ⟨tr', ?_, heq⟩
  unfold run at *
  rw [runBlock_dirBody ctx p]
  exact hrun

example : flatMatches (.cons (.field 0 .plain (.leaf (.int 8 .le))) (.cons (.field 1 .plain (.leaf (.int 4 .le))) (.cons (.field 2 .plain (.leaf .cstring)) .nil)))
    (.cons (.add 8 .le) (.cons (.ret 4 .le 0) (.cons .cstr .nil))) = true := by decide
example : flatMatches (.cons (.field 0 .plain (.leaf (.int 4 .be))) .nil) (.cons (.add 4 .le) .nil) = false := by decide

end WowVerif.Wireshark

open WowVerif.Wireshark in
#print axioms flat_sound
open WowVerif.Wireshark in
#print axioms flat_walk
open WowVerif.Wireshark in
#print axioms flat_walk_dir
