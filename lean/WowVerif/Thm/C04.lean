/-
C04 — out-of-domain field values are rejected, never silently reinterpreted.
(1) specification side: an undeclared number at an enum field's full wire width is an error that reports the number;
    a constant-sized container never decodes from a body of another length (`fixed_consumes`, `size_reject`).
(2) generated side: `enumReadOk` classifies the read expression the printer emits for an enum member;
    `enumReadOk_sound` says an accepted expression rejects every undeclared wire value reporting that value, and
    `narrowing_cast_aliases` shows the `(read_uN as uM).try_into()` shape does not.
-/
import WowVerif.Model.SemSize
import WowVerif.Lemmas.Bytes
namespace WowVerif.Sem

/-- an enum field holding an undeclared number is rejected, and the error reports the number as sent -/
theorem decLeaf_enum_reject (k : Nat) (e : Endian) (vals : List Nat) (bs r : Bytes) (n : Nat)
    (h : decInt k e bs = .ok (n, r)) (hn : vals.contains n = false) :
    decLeaf (.enumT k e vals) bs = .error (.enumValue n) := by
  have hn' : ¬ n ∈ vals := by simpa using hn
  simp [decLeaf, h, hn']

/-- whatever an enum field decodes to is a declared value -/
theorem decLeaf_enum_declared (k : Nat) (e : Endian) (vals : List Nat) (bs r : Bytes) (v : Val)
    (h : decLeaf (.enumT k e vals) bs = .ok (v, r)) : ∃ n, v = .nat n ∧ vals.contains n = true := by
  simp only [decLeaf] at h
  cases hd : decInt k e bs with
  | error x => simp [hd] at h
  | ok p =>
    obtain ⟨n, r'⟩ := p
    simp only [hd] at h
    split at h
    · rename_i hc
      simp only [Except.ok.injEq, Prod.mk.injEq] at h
      exact ⟨n, h.1.symm, hc⟩
    · cases h

private theorem decInt_consumes (k : Nat) (e : Endian) (bs r : Bytes) (n : Nat) (h : decInt k e bs = .ok (n, r)) :
    bs.length = k + r.length := by
  unfold decInt at h
  split at h
  · simp only [Except.ok.injEq, Prod.mk.injEq] at h
    rw [← h.2]; simp; omega
  · cases h

private theorem leaf_consumes (l : Leaf) (n : Nat) (hf : leafFixed l = some n) (bs r : Bytes) (v : Val)
    (h : decLeaf l bs = .ok (v, r)) : bs.length = n + r.length := by
  cases l with
  | int k e =>
    simp only [leafFixed, Option.some.injEq] at hf; subst hf
    simp only [decLeaf] at h
    cases hd : decInt k e bs with
    | error x => simp [hd] at h
    | ok p =>
      obtain ⟨m, r'⟩ := p
      simp only [hd, Except.ok.injEq, Prod.mk.injEq] at h
      rw [← h.2]; exact decInt_consumes k e bs r' m hd
  | bool k =>
    simp only [leafFixed, Option.some.injEq] at hf; subst hf
    simp only [decLeaf] at h
    cases hd : decInt k .le bs with
    | error x => simp [hd] at h
    | ok p =>
      obtain ⟨m, r'⟩ := p
      simp only [hd, Except.ok.injEq, Prod.mk.injEq] at h
      rw [← h.2]; exact decInt_consumes k .le bs r' m hd
  | enumT k e vals =>
    simp only [leafFixed, Option.some.injEq] at hf; subst hf
    simp only [decLeaf] at h
    cases hd : decInt k e bs with
    | error x => simp [hd] at h
    | ok p =>
      obtain ⟨m, r'⟩ := p
      simp only [hd] at h
      have hc := decInt_consumes _ _ bs r' m hd
      split at h
      · simp only [Except.ok.injEq, Prod.mk.injEq] at h; rw [← h.2]; exact hc
      · cases h
  | lvl k =>
    simp only [leafFixed, Option.some.injEq] at hf; subst hf
    simp only [decLeaf] at h
    cases hd : decInt k .le bs with
    | error x => simp [hd] at h
    | ok p =>
      obtain ⟨m, r'⟩ := p
      simp only [hd] at h
      have hc := decInt_consumes _ _ bs r' m hd
      split at h
      · simp only [Except.ok.injEq, Prod.mk.injEq] at h; rw [← h.2]; exact hc
      · cases h
  | dateTime =>
    simp only [leafFixed, Option.some.injEq] at hf; subst hf
    simp only [decLeaf] at h
    cases hd : decInt 4 .le bs with
    | error x => simp [hd] at h
    | ok p =>
      obtain ⟨m, r'⟩ := p
      simp only [hd] at h
      have hc := decInt_consumes _ _ bs r' m hd
      split at h
      · simp only [Except.ok.injEq, Prod.mk.injEq] at h; rw [← h.2]; exact hc
      · cases h
  | cstring => simp [leafFixed] at hf
  | sizedCString => simp [leafFixed] at hf
  | string => simp [leafFixed] at hf
  | packedGuid => simp [leafFixed] at hf
  | prim nm => simp [leafFixed] at hf

private theorem iterDec_consumes (f : Bytes → Except Err (Val × Bytes)) (n : Nat)
    (hf : ∀ bs v r, f bs = .ok (v, r) → bs.length = n + r.length) :
    ∀ (k : Nat) (bs : Bytes) (vs : List Val) (r : Bytes), iterDec f k bs = .ok (vs, r) → bs.length = k * n + r.length := by
  intro k
  induction k with
  | zero => intro bs vs r h; simp [iterDec] at h; simp [h.2]
  | succ k ih =>
    intro bs vs r h
    simp only [iterDec] at h
    cases h1 : f bs with
    | error x => simp [h1] at h
    | ok p =>
      obtain ⟨v, r1⟩ := p
      simp only [h1] at h
      cases h2 : iterDec f k r1 with
      | error x => simp [h2] at h
      | ok q =>
        obtain ⟨vs', r2⟩ := q
        simp only [h2, Except.ok.injEq, Prod.mk.injEq] at h
        have a := hf bs v r1 h1
        have b := ih r1 vs' r2 h2
        rw [← h.2, a, b, Nat.succ_mul]; omega

mutual
theorem fixedTy_consumes : ∀ (t : Ty) (n : Nat), fixedTy t = some n → ∀ (env : Env) (bs : Bytes) (v : Val) (r : Bytes),
    decTy t env bs = .ok (v, r) → bs.length = n + r.length
  | .leaf l, n, hf, env, bs, v, r, h => by
      simp only [fixedTy] at hf; simp only [decTy] at h; exact leaf_consumes l n hf bs r v h
  | .struct ms, n, hf, env, bs, v, r, h => by
      simp only [fixedTy] at hf
      simp only [decTy] at h
      cases hd : decMembers ms [] bs with
      | error x => simp [hd] at h
      | ok p =>
        obtain ⟨vs, env', r'⟩ := p
        simp only [hd, Except.ok.injEq, Prod.mk.injEq] at h
        rw [← h.2]
        exact fixedMs_consumes ms n hf [] bs vs env' r' hd
  | .arrFixed k t, n, hf, env, bs, v, r, h => by
      simp only [fixedTy] at hf
      cases ht : fixedTy t with
      | none => simp [ht] at hf
      | some m =>
        simp only [ht, Option.map_some, Option.some.injEq] at hf
        simp only [decTy] at h
        cases hd : iterDec (decTy t env) k bs with
        | error x => simp [hd] at h
        | ok p =>
          obtain ⟨vs, r'⟩ := p
          simp only [hd, Except.ok.injEq, Prod.mk.injEq] at h
          have := iterDec_consumes (decTy t env) m (fun bs v r hh => fixedTy_consumes t m ht env bs v r hh) k bs vs r' hd
          rw [← h.2, ← hf]; exact this
  | .arrVar _ _, n, hf, _, _, _, _, _ => by simp [fixedTy] at hf

theorem fixedM_consumes : ∀ (m : Member) (n : Nat), fixedM m = some n → ∀ (env : Env) (bs : Bytes) (v : Val) (env' : Env) (r : Bytes),
    decMember m env bs = .ok (v, env', r) → bs.length = n + r.length
  | .field id role t, n, hf, env, bs, v, env', r, h => by
      simp only [fixedM] at hf
      simp only [decMember] at h
      cases hd : decTy t env bs with
      | error x => simp [hd] at h
      | ok p =>
        obtain ⟨v', r'⟩ := p
        simp only [hd, Except.ok.injEq, Prod.mk.injEq] at h
        rw [← h.2.2]
        exact fixedTy_consumes t n hf env bs v' r' hd
  | .ifs var bs', n, hf, env, bs, v, env', r, h => by
      simp only [fixedM] at hf
      simp only [decMember] at h
      cases hx : env.get var with
      | none => simp [hx] at h
      | some x =>
        simp only [hx] at h
        cases hd : decBranches bs' x env bs with
        | error e => simp [hd] at h
        | ok p =>
          obtain ⟨vs, e', r'⟩ := p
          simp only [hd, Except.ok.injEq, Prod.mk.injEq] at h
          rw [← h.2.2]
          exact fixedB_consumes bs' n hf x env bs vs e' r' hd
  | .endless _ _, n, hf, _, _, _, _, _, _ => by simp [fixedM] at hf
  | .optional _, n, hf, _, _, _, _, _, _ => by simp [fixedM] at hf

theorem fixedB_consumes : ∀ (b : Branches) (n : Nat), fixedB b = some n → ∀ (x : Nat) (env : Env) (bs : Bytes) (vs : List Val) (env' : Env) (r : Bytes),
    decBranches b x env bs = .ok (vs, env', r) → bs.length = n + r.length
  | .els ms, n, hf, x, env, bs, vs, env', r, h => by
      simp only [fixedB] at hf; simp only [decBranches] at h
      exact fixedMs_consumes ms n hf env bs vs env' r h
  | .cons c ms b', n, hf, x, env, bs, vs, env', r, h => by
      simp only [fixedB] at hf
      cases h1 : fixedMs ms with
      | none => simp [h1] at hf
      | some a =>
        cases h2 : fixedB b' with
        | none => simp [h1, h2] at hf
        | some b2 =>
          simp only [h1, h2] at hf
          split at hf
          · rename_i hab
            simp only [Option.some.injEq] at hf
            simp only [decBranches] at h
            split at h
            · rw [← hf]; exact fixedMs_consumes ms a h1 env bs vs env' r h
            · rw [← hf, hab]; exact fixedB_consumes b' b2 h2 x env bs vs env' r h
          · cases hf

theorem fixedMs_consumes : ∀ (ms : Members) (n : Nat), fixedMs ms = some n → ∀ (env : Env) (bs : Bytes) (vs : List Val) (env' : Env) (r : Bytes),
    decMembers ms env bs = .ok (vs, env', r) → bs.length = n + r.length
  | .nil, n, hf, env, bs, vs, env', r, h => by
      simp only [fixedMs, Option.some.injEq] at hf
      simp only [decMembers, Except.ok.injEq, Prod.mk.injEq] at h
      rw [← hf, h.2.2]; simp
  | .cons m ms, n, hf, env, bs, vs, env', r, h => by
      simp only [fixedMs] at hf
      cases h1 : fixedM m with
      | none => simp [h1, optAdd] at hf
      | some a =>
        cases h2 : fixedMs ms with
        | none => simp [h1, h2, optAdd] at hf
        | some b =>
          simp only [h1, h2, optAdd, Option.some.injEq] at hf
          simp only [decMembers] at h
          cases hd1 : decMember m env bs with
          | error x => simp [hd1] at h
          | ok p =>
            obtain ⟨v, e1, r1⟩ := p
            simp only [hd1] at h
            cases hd2 : decMembers ms e1 r1 with
            | error x => simp [hd2] at h
            | ok q =>
              obtain ⟨vs', e2, r2⟩ := q
              simp only [hd2, Except.ok.injEq, Prod.mk.injEq] at h
              have a1 := fixedM_consumes m a h1 env bs v e1 r1 hd1
              have a2 := fixedMs_consumes ms b h2 e1 r1 vs' e2 r2 hd2
              rw [← h.2.2, ← hf, a1, a2]; omega
end

/-- **C04 (fixed size)**: a constant-sized container does not decode from a body of any other length -/
theorem size_reject (c : Members) (n : Nat) (hf : fixedMs c = some n) (bs : Bytes) (hl : bs.length ≠ n) (vs : List Val) :
    decode c bs ≠ .ok vs := by
  intro h
  unfold decode at h
  cases hd : decMembers c [] bs with
  | error x => simp [hd] at h
  | ok p =>
    obtain ⟨vs', env', r⟩ := p
    simp only [hd] at h
    have := fixedMs_consumes c n hf [] bs vs' env' r hd
    cases r with
    | nil => simp at this; exact hl this
    | cons x r => simp at h

/-- an accepted read expression rejects every undeclared wire value and reports that value -/
theorem enumReadOk_sound (wire : Nat) (vals : List Nat) (e : ReadExpr) (h : enumReadOk wire e = true) (n : Nat)
    (hn : n < 256 ^ wire) (hu : vals.contains n = false) : evalRead vals e n = .error n := by
  have hu' : ¬ n ∈ vals := by simpa using hu
  cases e with
  | direct w => simp [evalRead, hu']
  | castThenTry w b =>
    simp only [enumReadOk, Bool.and_eq_true, beq_iff_eq, decide_eq_true_eq] at h
    have hle : 256 ^ wire ≤ 256 ^ b := Nat.pow_le_pow_right (by decide) h.2
    have : n % 256 ^ b = n := Nat.mod_eq_of_lt (Nat.lt_of_lt_of_le hn hle)
    simp [evalRead, this, hu']
  | unknown => simp [enumReadOk] at h

/-- the narrowing shape accepts an undeclared wire value that aliases a declared one modulo 2^(8·base) -/
theorem narrowing_cast_aliases (wire base v : Nat) (vals : List Nat) (hb : base < wire) (hv : vals.contains v = true)
    (hlt : v < 256 ^ base) : evalRead vals (.castThenTry wire base) (v + 256 ^ base) = .ok v := by
  have : (v + 256 ^ base) % 256 ^ base = v := by
    rw [Nat.add_mod_right]; exact Nat.mod_eq_of_lt hlt
  have hv' : v ∈ vals := by simpa using hv
  simp [evalRead, this, hv']

/-! ### non-vacuity -/
example : evalRead [0, 1, 6] (.castThenTry 4 1) 0x106 = .ok 6 := by rfl
example : enumReadOk 4 (.castThenTry 4 1) = false := by decide
example : fixedMs (.cons (.field 0 .plain (.leaf (.int 8 .le))) (.cons (.ifs 0 (.cons (.eq [1]) (.cons (.field 1 .plain (.leaf (.int 4 .le))) .nil)
    (.els (.cons (.field 2 .plain (.arrFixed 2 (.leaf (.int 2 .be)))) .nil)))) .nil)) = some 12 := by decide

end WowVerif.Sem

open WowVerif.Sem in
#print axioms decLeaf_enum_reject
open WowVerif.Sem in
#print axioms decLeaf_enum_declared
open WowVerif.Sem in
#print axioms fixedMs_consumes
open WowVerif.Sem in
#print axioms size_reject
open WowVerif.Sem in
#print axioms enumReadOk_sound
open WowVerif.Sem in
#print axioms narrowing_cast_aliases
