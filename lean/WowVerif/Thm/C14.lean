/-
C14 — login protocol-version views are lossless and codec-equivalent.
-/
import WowVerif.Model.View
namespace WowVerif.View

/-- **lossless**: lifting a version-N record into the collective type and lowering it again returns the original, for every
record whose fields are declared by version N, whenever the defaulted fields are not fields of version N -/
theorem lower_lift {V} (a : Schema) (dflt : Name → V) (extra : List Name) (r : Rec V)
    (hr : ∀ f ∈ names r, f ∈ a.names) (hx : ∀ f ∈ extra, f ∉ a.names) :
    lower a (lift dflt extra r) = r := by
  unfold lower lift
  rw [List.filter_append]
  have h1 : r.filter (fun kv => a.names.contains kv.1) = r := by
    apply List.filter_eq_self.mpr
    intro kv hkv
    have : kv.1 ∈ names r := List.mem_map.mpr ⟨kv, hkv, rfl⟩
    simpa using hr _ this
  have h2 : ((extra.filter (fun f => !(names r).contains f)).map (fun f => (f, dflt f))).filter (fun kv => a.names.contains kv.1) = [] := by
    apply List.filter_eq_nil_iff.mpr
    intro kv hkv
    obtain ⟨f, hf, rfl⟩ := List.mem_map.mp hkv
    have hfx : f ∈ extra := (List.mem_filter.mp hf).1
    simpa using hx f hfx
  rw [h1, h2, List.append_nil]

/-- the extra fields computed from two schemas are never fields of the older one -/
theorem extraOf_disjoint (a b : Schema) : ∀ f ∈ extraOf a b, f ∉ a.names := by
  intro f hf
  have := (List.mem_filter.mp hf).2
  simpa using this

/-- lossless for the schema-derived view -/
theorem lower_lift_schema {V} (a b : Schema) (dflt : Name → V) (r : Rec V) (hr : ∀ f ∈ names r, f ∈ a.names) :
    lower a (lift dflt (extraOf a b) r) = r :=
  lower_lift a dflt _ r hr (extraOf_disjoint a b)

/-- a `true` verdict of the embedding check means every field of the older version is a field of the collective one, of
the same kind and at least as wide -/
theorem embedsOk_sound (a b : Schema) (h : embedsOk a b = true) :
    ∀ f ∈ a, ∃ g ∈ b, g.1 = f.1 ∧ g.2.1 = f.2.1 ∧ f.2.2 ≤ g.2.2 := by
  intro f hf
  have h1 := List.all_eq_true.mp h f hf
  obtain ⟨g, hg, hgp⟩ := List.any_eq_true.mp h1
  have h2 : (g.1 = f.1 ∧ g.2.1 = f.2.1) ∧ f.2.2 ≤ g.2.2 := by simpa using hgp
  exact ⟨g, hg, h2.1.1, h2.1.2, h2.2⟩

/-- under the embedding check the names of the older version are names of the collective version -/
theorem embedsOk_names (a b : Schema) (h : embedsOk a b = true) : ∀ n ∈ a.names, n ∈ b.names := by
  intro n hn
  obtain ⟨f, hf, rfl⟩ := List.mem_map.mp hn
  obtain ⟨g, hg, h1, _⟩ := embedsOk_sound a b h f hf
  exact List.mem_map.mpr ⟨g, hg, h1⟩

/-- **codec equivalence, reading**: the protocol-parameterised reader yields exactly the lifted value of version N's codec -/
theorem readProtocol_eq {A B} (c : Codec A) (lft : A → B) (bs : Bytes) :
    readProtocol c lft bs = (c.dec bs).map lft := rfl

/-- **codec equivalence, writing**: the protocol-parameterised writer emits exactly the bytes of version N's codec on the lowered value -/
theorem writeProtocol_eq {A B} (c : Codec A) (lwr : B → A) (b : B) :
    writeProtocol c lwr b = c.enc (lwr b) := rfl

/-- **round trip through the protocol API reproduces the bytes** of version N's codec, given that codec's own round trip (C01)
and losslessness of the view -/
theorem protocol_roundtrip {A B} (c : Codec A) (lft : A → B) (lwr : B → A)
    (hview : ∀ a, lwr (lft a) = a) (a : A) (hc : c.dec (c.enc a) = some a) :
    (readProtocol c lft (c.enc a)).map (writeProtocol c lwr) = some (c.enc a) := by
  simp [readProtocol, writeProtocol, hc, hview]

/-- lowering is stable: lowering, lifting and lowering again changes nothing (also for collective values that have no
preimage, e.g. an enumerator that only the latest version has) -/
theorem lower_lift_lower {A B} (lft : A → B) (lwr : B → A) (hview : ∀ a, lwr (lft a) = a) (b : B) :
    lwr (lft (lwr b)) = lwr b := hview _

/-! ### non-vacuity: version 2 vs version 8 of CMD_AUTH_LOGON_PROOF_Server (Success branch) -/
example : lower [(1, 0, 1), (2, 5, 0), (3, 0, 4)] (lift (fun _ => 0) (extraOf [(1, 0, 1), (2, 5, 0), (3, 0, 4)] [(1, 0, 1), (2, 5, 0), (7, 0, 4), (3, 0, 4), (9, 0, 2)]) [(1, 0), (2, 77), (3, 5)])
    = [(1, 0), (2, 77), (3, 5)] := by decide
example : embedsOk [(1, 0, 1), (2, 5, 0), (3, 0, 4)] [(1, 0, 2), (2, 5, 0), (7, 0, 4), (3, 0, 4), (9, 0, 2)] = true := by decide
example : embedsOk [(1, 0, 4)] [(1, 0, 2)] = false := by decide
example : embedsOk [(1, 0, 1), (2, 6, 0)] [(1, 0, 1), (2, 5, 0)] = false := by decide

end WowVerif.View

open WowVerif.View in
#print axioms lower_lift
open WowVerif.View in
#print axioms lower_lift_schema
open WowVerif.View in
#print axioms embedsOk_sound
open WowVerif.View in
#print axioms embedsOk_names
open WowVerif.View in
#print axioms protocol_roundtrip
open WowVerif.View in
#print axioms lower_lift_lower
