/-
C06 for definitions read from a stream field by field (the login messages): the `read_exact` script compiled from a closed container
(Model/ChunkSem.lean) run on a buffer IS the specification decoder (`script_decodes`), therefore — by `chunk_invariant` — it returns the
same result under every partition of the bytes into delivery chunks and every placement of `Pending` (`definition_chunk_invariant`).
-/
import WowVerif.Model.ChunkSem
import WowVerif.Thm.C06
import WowVerif.Thm.C03
namespace WowVerif.Chunk
open WowVerif.Sem

def bindE {β γ} (x : Except Sem.Err (β × Bytes)) (k : β → Bytes → Except RErr γ) : Except RErr γ :=
  match x with
  | .ok (v, r) => k v r
  | .error e => .error (errOf e)

theorem run_intD {α} (n : Nat) (e : Endian) (k : Nat → Dec α) (bs : Bytes) :
    runWhole (intD n e k) bs = bindE (decInt n e bs) (fun v r => runWhole (k v) r) := by
  simp only [intD, runWhole, decInt, bindE]
  split
  · rfl
  · simp [errOf]

theorem run_cstrD {α} : ∀ (bs : Bytes) (fuel : Nat) (acc : Bytes) (k : Bytes → Dec α), bs.length ≤ fuel →
    runWhole (cstrD fuel acc k) bs =
      (match splitAtZero bs with
       | some (s, r) => runWhole (k (acc.reverse ++ s)) r
       | Option.none => .error .unexpectedEof)
  | [], fuel, acc, k, _ => by
    cases fuel with
    | zero => simp [cstrD, runWhole, splitAtZero]
    | succ f => simp [cstrD, runWhole, splitAtZero]
  | x :: t, fuel, acc, k, h => by
    cases fuel with
    | zero => simp at h
    | succ f =>
      have ht : t.length ≤ f := by simpa using h
      simp only [cstrD, runWhole, splitAtZero]
      by_cases hx : (x == 0) = true
      · simp [hx]
      · have hx' : (x == 0) = false := by simpa using hx
        simp only [List.length_cons, Nat.le_add_left, ↓reduceIte, List.take_succ_cons, List.take_zero, List.drop_succ_cons, List.drop_zero, hx',
          Bool.false_eq_true]
        rw [run_cstrD t f (x :: acc) k ht]
        cases splitAtZero t with
        | none => simp
        | some p => obtain ⟨s, r⟩ := p; simp

theorem run_unpackD {α} : ∀ (m : List Bool) (k : Bytes → Dec α) (bs : Bytes),
    runWhole (unpackD m k) bs =
      (match unpackBytes m bs with
       | .ok (g, r) => runWhole (k g) r
       | .error e => .error (errOf e))
  | [], k, bs => by simp [unpackD, unpackBytes]
  | false :: m, k, bs => by
    simp only [unpackD, unpackBytes]
    rw [run_unpackD m _ bs]
    cases unpackBytes m bs with
    | error e => rfl
    | ok p => obtain ⟨g, r⟩ := p; rfl
  | true :: m, k, [] => by simp [unpackD, unpackBytes, runWhole, errOf]
  | true :: m, k, x :: t => by
    simp only [unpackD, unpackBytes, runWhole]
    simp only [List.length_cons, Nat.le_add_left, ↓reduceIte, List.take_succ_cons, List.take_zero, List.drop_succ_cons, List.drop_zero]
    rw [run_unpackD m _ t]
    cases unpackBytes m t with
    | error e => rfl
    | ok p => obtain ⟨g, r⟩ := p; rfl

def notPrim : Leaf → Bool
  | .prim _ => false
  | _ => true

theorem run_leafD {α} (fuel : Nat) (l : Leaf) (k : Val → Dec α) (bs : Bytes) (hp : notPrim l = true) (hf : bs.length ≤ fuel) :
    runWhole (leafD fuel l k) bs = bindE (decLeaf l bs) (fun v r => runWhole (k v) r) := by
  cases l with
  | int n e =>
    simp only [leafD, run_intD, decLeaf]
    cases decInt n e bs with
    | error x => rfl
    | ok p => obtain ⟨v, r⟩ := p; rfl
  | bool n =>
    simp only [leafD, run_intD, decLeaf]
    cases decInt n .le bs with
    | error x => rfl
    | ok p => obtain ⟨v, r⟩ := p; rfl
  | enumT n e vals =>
    simp only [leafD, run_intD, decLeaf]
    cases decInt n e bs with
    | error x => rfl
    | ok p =>
      obtain ⟨v, r⟩ := p
      simp only [bindE]
      split <;> simp [runWhole, errOf]
  | lvl n =>
    simp only [leafD, run_intD, decLeaf]
    cases decInt n .le bs with
    | error x => rfl
    | ok p =>
      obtain ⟨v, r⟩ := p
      simp only [bindE]
      split <;> simp [runWhole, errOf]
  | dateTime =>
    simp only [leafD, run_intD, decLeaf]
    cases decInt 4 .le bs with
    | error x => rfl
    | ok p =>
      obtain ⟨v, r⟩ := p
      simp only [bindE]
      split <;> simp [runWhole, errOf]
  | cstring =>
    simp only [leafD, decLeaf, run_cstrD bs fuel [] _ hf]
    cases splitAtZero bs with
    | none => simp [bindE, errOf]
    | some p => obtain ⟨s, r⟩ := p; simp [bindE]
  | sizedCString =>
    simp only [leafD, run_intD, decLeaf]
    cases decInt 4 .le bs with
    | error x => rfl
    | ok p =>
      obtain ⟨n, r⟩ := p
      simp only [bindE]
      by_cases hn : n = 0
      · simp [hn, runWhole, errOf]
      · simp only [hn, if_false, runWhole]
        by_cases hl : n ≤ r.length
        · simp only [hl, if_true]
          have t1 : (r.take n).take (n - 1) = r.take (n - 1) := by
            rw [List.take_take]; congr 1; omega
          have t2 : ((r.take n).drop (n - 1)).head? = (r.drop (n - 1)).head? := by
            rw [List.drop_take]
            have : n - (n - 1) = 1 := by omega
            rw [this]
            cases r.drop (n - 1) <;> simp
          simp only [t1, t2]
          split
          · simp [runWhole, errOf]
          · split <;> simp [runWhole, errOf]
        · simp [hl, errOf]
  | string =>
    simp only [leafD, run_intD, decLeaf]
    cases decInt 1 .le bs with
    | error x => rfl
    | ok p =>
      obtain ⟨n, r⟩ := p
      simp only [bindE, runWhole]
      split <;> simp [errOf]
  | packedGuid =>
    simp only [leafD, decLeaf]
    cases bs with
    | nil => simp [runWhole, bindE, errOf]
    | cons x t =>
      simp only [runWhole, List.length_cons, Nat.le_add_left, ↓reduceIte, List.take_succ_cons, List.take_zero, List.drop_succ_cons, List.drop_zero]
      rw [run_unpackD]
      cases unpackBytes (natToBits 8 x.toNat) t with
      | error e => rfl
      | ok p => obtain ⟨g, r⟩ := p; rfl
  | prim nm => simp [notPrim] at hp

theorem run_iterD {α} (fuel : Nat) (f : (Val → Dec α) → Dec α) (fd : Bytes → Except Sem.Err (Val × Bytes))
    (hf : ∀ (k : Val → Dec α) (bs : Bytes), bs.length ≤ fuel → runWhole (f k) bs = bindE (fd bs) (fun v r => runWhole (k v) r))
    (hg : ∀ bs v r, fd bs = .ok (v, r) → r.length ≤ bs.length) :
    ∀ (n : Nat) (k : List Val → Dec α) (bs : Bytes), bs.length ≤ fuel →
      runWhole (iterD f n k) bs = bindE (iterDec fd n bs) (fun vs r => runWhole (k vs) r)
  | 0, k, bs, _ => by simp [iterD, iterDec, bindE]
  | n + 1, k, bs, hb => by
    simp only [iterD, iterDec]
    rw [hf _ bs hb]
    cases h1 : fd bs with
    | error e => simp [bindE]
    | ok p =>
      obtain ⟨v, r⟩ := p
      simp only [bindE]
      have hr := hg bs v r h1
      rw [run_iterD fuel f fd hf hg n _ r (by omega)]
      cases iterDec fd n r with
      | error e => simp [bindE]
      | ok q => obtain ⟨vs, r'⟩ := q; simp [bindE]

def bindM {β γ} (x : Except Sem.Err (β × Env × Bytes)) (k : β → Env → Bytes → Except RErr γ) : Except RErr γ :=
  match x with
  | .ok (v, e, r) => k v e r
  | .error e => .error (errOf e)

mutual
theorem sTy {α} (fuel : Nat) : ∀ (t : Ty) (env : Env) (k : Val → Dec α) (bs : Bytes), scriptTy t = true → bs.length ≤ fuel →
    runWhole (tyD fuel t env k) bs = bindE (decTy t env bs) (fun v r => runWhole (k v) r)
  | .leaf l, env, k, bs, hs, hb => by
    simp only [tyD, decTy]
    exact run_leafD fuel l k bs (by cases l <;> simp_all [scriptTy, notPrim]) hb
  | .struct ms, env, k, bs, hs, hb => by
    simp only [scriptTy] at hs
    simp only [tyD, decTy]
    rw [sMs fuel ms [] _ bs hs hb]
    cases decMembers ms [] bs with
    | error e => rfl
    | ok p => obtain ⟨vs, e', r⟩ := p; rfl
  | .arrFixed n t, env, k, bs, hs, hb => by
    simp only [scriptTy] at hs
    simp only [tyD, decTy]
    rw [run_iterD fuel (tyD fuel t env) (decTy t env) (fun k' bs' hb' => sTy fuel t env k' bs' hs hb')
      (fun bs' v r h => decTy_no_growth t env bs' v r h) n _ bs hb]
    cases iterDec (decTy t env) n bs with
    | error e => rfl
    | ok p => obtain ⟨vs, r⟩ := p; rfl
  | .arrVar var t, env, k, bs, hs, hb => by
    simp only [scriptTy] at hs
    simp only [tyD, decTy]
    cases env.get var with
    | none => simp [runWhole, bindE, errOf]
    | some n =>
      simp only
      rw [run_iterD fuel (tyD fuel t env) (decTy t env) (fun k' bs' hb' => sTy fuel t env k' bs' hs hb')
        (fun bs' v r h => decTy_no_growth t env bs' v r h) n _ bs hb]
      cases iterDec (decTy t env) n bs with
      | error e => rfl
      | ok p => obtain ⟨vs, r⟩ := p; rfl
theorem sM {α} (fuel : Nat) : ∀ (m : Member) (env : Env) (k : Val → Env → Dec α) (bs : Bytes), scriptM m = true → bs.length ≤ fuel →
    runWhole (memberD fuel m env k) bs = bindM (decMember m env bs) (fun v e r => runWhole (k v e) r)
  | .field id role t, env, k, bs, hs, hb => by
    simp only [scriptM] at hs
    simp only [memberD, decMember]
    rw [sTy fuel t env _ bs hs hb]
    cases decTy t env bs with
    | error e => rfl
    | ok p => obtain ⟨v, r⟩ := p; rfl
  | .ifs var bsx, env, k, bs, hs, hb => by
    simp only [scriptM] at hs
    simp only [memberD, decMember]
    cases env.get var with
    | none => simp [runWhole, bindM, errOf]
    | some x =>
      simp only
      rw [sB fuel bsx x env _ bs hs hb]
      cases decBranches bsx x env bs with
      | error e => rfl
      | ok p => obtain ⟨vs, e', r⟩ := p; rfl
  | .endless id t, env, k, bs, hs, hb => by simp [scriptM] at hs
  | .optional ms, env, k, bs, hs, hb => by simp [scriptM] at hs
theorem sB {α} (fuel : Nat) : ∀ (bsx : Branches) (x : Nat) (env : Env) (k : List Val → Env → Dec α) (bs : Bytes), scriptB bsx = true → bs.length ≤ fuel →
    runWhole (branchesD fuel bsx x env k) bs = bindM (decBranches bsx x env bs) (fun vs e r => runWhole (k vs e) r)
  | .els ms, x, env, k, bs, hs, hb => by
    simp only [scriptB] at hs
    simp only [branchesD, decBranches]
    exact sMs fuel ms env k bs hs hb
  | .cons c ms rest, x, env, k, bs, hs, hb => by
    simp only [scriptB, Bool.and_eq_true] at hs
    simp only [branchesD, decBranches]
    split
    · exact sMs fuel ms env k bs hs.1 hb
    · exact sB fuel rest x env k bs hs.2 hb
theorem sMs {α} (fuel : Nat) : ∀ (ms : Members) (env : Env) (k : List Val → Env → Dec α) (bs : Bytes), scriptMs ms = true → bs.length ≤ fuel →
    runWhole (membersD fuel ms env k) bs = bindM (decMembers ms env bs) (fun vs e r => runWhole (k vs e) r)
  | .nil, env, k, bs, hs, hb => by simp [membersD, decMembers, bindM]
  | .cons m ms, env, k, bs, hs, hb => by
    simp only [scriptMs, Bool.and_eq_true] at hs
    simp only [membersD, decMembers]
    rw [sM fuel m env _ bs hs.1 hb]
    cases h1 : decMember m env bs with
    | error e => rfl
    | ok p =>
      obtain ⟨v, e1, r⟩ := p
      simp only [bindM]
      have hr := decMember_no_growth m env bs v e1 r h1
      rw [sMs fuel ms e1 _ r hs.2 (by omega)]
      cases decMembers ms e1 r with
      | error e => rfl
      | ok q => obtain ⟨vs, e2, r'⟩ := q; rfl
end

/-- **the script is the decoder**: on a whole buffer the compiled script returns exactly what the specification decoder returns (values
and the unread rest), errors mapped by `errOf` -/
theorem script_decodes (fuel : Nat) (c : Members) (bs : Bytes) (hs : scriptMs c = true) (hb : bs.length ≤ fuel) :
    runWhole (decodeD fuel c) bs =
      (match decMembers c [] bs with
       | .ok (vs, _, r) => .ok (vs, r)
       | .error e => .error (errOf e)) := by
  simp only [decodeD]
  rw [sMs fuel c [] _ bs hs hb]
  cases decMembers c [] bs with
  | error e => rfl
  | ok p => obtain ⟨vs, e, r⟩ := p; simp [bindM, runWhole]

/-- **C06 for every scriptable definition**: every delivery schedule of the same bytes gives the blocking result -/
theorem definition_chunk_invariant (fuel : Nat) (c : Members) (cs : Schedule) (hs : scriptMs c = true) (hb : (flatten cs).length ≤ fuel) :
    runChunked (decodeD fuel c) [] cs =
      (match decMembers c [] (flatten cs) with
       | .ok (vs, _, r) => .ok (vs, r)
       | .error e => .error (errOf e)) := by
  rw [async_eq_blocking, script_decodes fuel c (flatten cs) hs hb]

/-! ### non-vacuity: a login-like definition (u8 length-prefixed string, C string, enum-steered conditional, counted array) -/
def exLogin : Members :=
  .cons (.field 0 .plain (.leaf (.enumT 1 .le [0, 1])))
  (.cons (.field 1 .plain (.leaf .string))
  (.cons (.field 2 .plain (.leaf .cstring))
  (.cons (.ifs 0 (.cons (.eq [1]) (.cons (.field 3 .plain (.leaf (.int 2 .be))) .nil) (.els .nil)))
  (.cons (.field 4 .plain (.leaf (.int 1 .le)))
  (.cons (.field 5 .plain (.arrVar 4 (.leaf (.int 2 .le)))) .nil)))))
example : scriptMs exLogin = true := by decide
example : runChunked (decodeD 64 exLogin) [] [some [1, 2], none, some [65], some [66, 67, 0, 0x12], none, some [0x34, 2, 1, 0, 2], some [0, 9]] =
    .ok ([.nat 1, .bytes [65, 66], .bytes [67], .tuple [.nat 0x1234], .nat 2, .list [.nat 1, .nat 2]], [9]) := by rfl

end WowVerif.Chunk

open WowVerif.Chunk in
#print axioms run_leafD
open WowVerif.Chunk in
#print axioms sMs
open WowVerif.Chunk in
#print axioms script_decodes
open WowVerif.Chunk in
#print axioms definition_chunk_invariant
