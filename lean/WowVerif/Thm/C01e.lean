/-
C01, second sentence — compressed messages: "the equality is required of the decompressed payload and of a second decode/encode cycle".
The compressor is a parameter: any pair `comp / decomp` with `decomp (comp p) = some p` (zlib's contract; the library's writer and
reader use flate2 for both directions).  A compressed BODY is `u32 decompressed size ++ comp (encode c v)`; a compressed TAIL MEMBER is the
plain members in front, then `u32 decompressed size ++ comp (payload)`.  `zbody_roundtrip`, `zbody_second_cycle`, `ztail_roundtrip`.
-/
import WowVerif.Thm.C01
namespace WowVerif.Sem

structure ZCodec where
  comp : Bytes → Bytes
  decomp : Bytes → Option Bytes
  law : ∀ p, decomp (comp p) = some p

/-- a message whose whole body is compressed -/
def encZBody (Z : ZCodec) (c : Members) (vs : List Val) : Option Bytes :=
  match encode c vs with
  | some p => (encInt 4 .le p.length).map (· ++ Z.comp p)
  | Option.none => Option.none

def decZBody (Z : ZCodec) (c : Members) (bs : Bytes) : Except Err (List Val) :=
  match decInt 4 .le bs with
  | .error x => .error x
  | .ok (n, r) =>
    match Z.decomp r with
    | Option.none => .error (.unsupported "inflate")
    | some p => if p.length = n then decode c p else .error (.trailing p.length)

theorem zbody_roundtrip (Z : ZCodec) (c : Members) (hw : wfMs c = true) (vs : List Val) (b : Bytes) (h : encZBody Z c vs = some b) :
    decZBody Z c b = .ok vs := by
  unfold encZBody at h
  cases hp : encode c vs with
  | none => simp [hp] at h
  | some p =>
    simp only [hp] at h
    cases hn : encInt 4 .le p.length with
    | none => simp [hn] at h
    | some nb =>
      simp only [hn, Option.map_some, Option.some.injEq] at h
      subst h
      have hd := decInt_encInt 4 .le p.length nb (Z.comp p) hn
      simp only [decZBody, hd, Z.law p, if_true]
      exact decode_encode c vs p hw hp

/-- the second cycle writes the same bytes (the compressor is a function) -/
theorem zbody_second_cycle (Z : ZCodec) (c : Members) (hw : wfMs c = true) (vs : List Val) (b : Bytes) (h : encZBody Z c vs = some b) :
    ∃ vs', decZBody Z c b = .ok vs' ∧ encZBody Z c vs' = some b :=
  ⟨vs, zbody_roundtrip Z c hw vs b h, h⟩

/-- plain members followed by a compressed tail holding the encoding of the container `t` -/
def encZTail (Z : ZCodec) (ms t : Members) (vs ws : List Val) : Option Bytes :=
  match encMembers ms [] vs, encode t ws with
  | some (b1, _), some p => (encInt 4 .le p.length).map fun nb => b1 ++ (nb ++ Z.comp p)
  | _, _ => Option.none

def decZTail (Z : ZCodec) (ms t : Members) (bs : Bytes) : Except Err (List Val × List Val) :=
  match decMembers ms [] bs with
  | .error x => .error x
  | .ok (vs, _, r) =>
    match decInt 4 .le r with
    | .error x => .error x
    | .ok (n, r2) =>
      match Z.decomp r2 with
      | Option.none => .error (.unsupported "inflate")
      | some p => if p.length = n then (match decode t p with | .ok ws => .ok (vs, ws) | .error x => .error x) else .error (.trailing p.length)

theorem ztail_roundtrip (Z : ZCodec) (ms t : Members) (hw : wfMs ms = true) (htf : tailFree ms = true) (hwt : wfMs t = true)
    (vs ws : List Val) (b : Bytes) (h : encZTail Z ms t vs ws = some b) : decZTail Z ms t b = .ok (vs, ws) := by
  unfold encZTail at h
  cases h1 : encMembers ms [] vs with
  | none => simp [h1] at h
  | some q =>
    obtain ⟨b1, e1⟩ := q
    cases hp : encode t ws with
    | none => simp [h1, hp] at h
    | some p =>
      simp only [h1, hp] at h
      cases hn : encInt 4 .le p.length with
      | none => simp [hn] at h
      | some nb =>
        simp only [hn, Option.map_some, Option.some.injEq] at h
        subst h
        have hm := rtMembers ms [] vs b1 e1 (nb ++ Z.comp p) hw (Or.inl htf) h1
        have hd := decInt_encInt 4 .le p.length nb (Z.comp p) hn
        simp only [decZTail, hm, hd, Z.law p, if_true, decode_encode t ws p hwt hp]

end WowVerif.Sem

open WowVerif.Sem in
#print axioms zbody_roundtrip
open WowVerif.Sem in
#print axioms zbody_second_cycle
open WowVerif.Sem in
#print axioms ztail_roundtrip
