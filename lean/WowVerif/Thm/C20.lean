/-
C20 — area-trigger containment and distance helpers match their geometric definition.
The definitions of `Model/Geometry.lean` (the code's formulas, written once over abstract operations) are instantiated
with the real numbers; the theorems state that they are the geometric definition.
-/
import WowVerif.Model.Geometry
import Mathlib.Analysis.SpecialFunctions.Trigonometric.Basic
namespace WowVerif.Geometry

open Classical in
/-- the real-number instance of the operations -/
noncomputable def realOps : Ops ℝ where
  add := (· + ·)
  sub := (· - ·)
  mul := (· * ·)
  div := (· / ·)
  abs := fun x => |x|
  sqrt := Real.sqrt
  sin := Real.sin
  cos := Real.cos
  pi := Real.pi
  two := 2
  lt := fun a b => decide (a < b)

/-- coordinates of `p - o` in the box's own frame: the box axes are the world axes rotated by `yaw` about z -/
noncomputable def frameU (p o : V3 ℝ) (yaw : ℝ) : ℝ := (p.x - o.x) * Real.cos yaw + (p.y - o.y) * Real.sin yaw
noncomputable def frameV (p o : V3 ℝ) (yaw : ℝ) : ℝ := (p.y - o.y) * Real.cos yaw - (p.x - o.x) * Real.sin yaw

/-- `(frameU, frameV)` really are the coordinates in the orthonormal frame `e₁ = (cos yaw, sin yaw)`, `e₂ = (-sin yaw, cos yaw)`:
the offset is recovered as `u • e₁ + v • e₂`, and lengths are preserved. -/
theorem frame_reconstruct (p o : V3 ℝ) (yaw : ℝ) :
    p.x - o.x = frameU p o yaw * Real.cos yaw - frameV p o yaw * Real.sin yaw ∧
    p.y - o.y = frameU p o yaw * Real.sin yaw + frameV p o yaw * Real.cos yaw ∧
    frameU p o yaw ^ 2 + frameV p o yaw ^ 2 = (p.x - o.x) ^ 2 + (p.y - o.y) ^ 2 := by
  have h := Real.sin_sq_add_cos_sq yaw
  unfold frameU frameV
  refine ⟨?_, ?_, ?_⟩
  · linear_combination (-(p.x - o.x)) * h
  · linear_combination (-(p.y - o.y)) * h
  · linear_combination ((p.x - o.x) ^ 2 + (p.y - o.y) ^ 2) * h

/-- the code's rotated coordinates are the box-frame coordinates -/
theorem boxCoords_eq (p o : V3 ℝ) (yaw : ℝ) :
    boxCoords realOps p o yaw = (frameU p o yaw, frameV p o yaw, p.z - o.z) := by
  simp only [boxCoords, realOps, frameU, frameV, Real.cos_two_pi_sub, Real.sin_two_pi_sub]
  refine Prod.ext ?_ (Prod.ext ?_ rfl) <;> simp <;> ring

/-- **C20 (box)**: inside iff, in the box's own frame, within half the length, width and height plus 2 yards on each axis -/
theorem isWithinSquare_iff (p o : V3 ℝ) (l w h yaw : ℝ) :
    isWithinSquare realOps p o l w h yaw = true ↔
      |frameU p o yaw| ≤ l / 2 + 2 ∧ |frameV p o yaw| ≤ w / 2 + 2 ∧ |p.z - o.z| ≤ h / 2 + 2 := by
  unfold isWithinSquare
  rw [boxCoords_eq]
  simp only [realOps, Bool.not_eq_true', Bool.or_eq_false_iff, decide_eq_false_iff_not, not_lt, and_assoc]

/-- **C20 (distance)**: the helper returns the Euclidean distance -/
theorem distanceBetween_eq (a b : V3 ℝ) :
    distanceBetween realOps a b = Real.sqrt ((a.x - b.x) ^ 2 + (a.y - b.y) ^ 2 + (a.z - b.z) ^ 2) ∧
    0 ≤ distanceBetween realOps a b ∧
    distanceBetween realOps a b ^ 2 = (a.x - b.x) ^ 2 + (a.y - b.y) ^ 2 + (a.z - b.z) ^ 2 := by
  have e : distanceBetween realOps a b = Real.sqrt ((a.x - b.x) ^ 2 + (a.y - b.y) ^ 2 + (a.z - b.z) ^ 2) := by
    simp only [distanceBetween, realOps]; congr 1; ring
  refine ⟨e, ?_, ?_⟩
  · rw [e]; exact Real.sqrt_nonneg _
  · rw [e]; exact Real.sq_sqrt (by positivity)

theorem distance2d_eq (ax ay bx by_ : ℝ) :
    distance2d realOps ax ay bx by_ = Real.sqrt ((ax - bx) ^ 2 + (ay - by_) ^ 2) := by
  simp only [distance2d, realOps]; congr 1; ring

/-- **C20 (circle)**: inside iff on the trigger's map and closer to the centre than the radius -/
theorem contains_circle_iff (m pm : Nat) (c p : V3 ℝ) (r : ℝ) :
    contains realOps (.circle m c r) pm p = true ↔
      m = pm ∧ Real.sqrt ((c.x - p.x) ^ 2 + (c.y - p.y) ^ 2 + (c.z - p.z) ^ 2) < r := by
  simp only [contains, isWithinDistance, Bool.and_eq_true, beq_iff_eq, (distanceBetween_eq c p).1]
  simp [realOps]

theorem contains_square_iff (m pm : Nat) (c p : V3 ℝ) (l w h yaw : ℝ) :
    contains realOps (.square m c l w h yaw) pm p = true ↔
      m = pm ∧ |frameU p c yaw| ≤ l / 2 + 2 ∧ |frameV p c yaw| ≤ w / 2 + 2 ∧ |p.z - c.z| ≤ h / 2 + 2 := by
  simp only [contains, Bool.and_eq_true, beq_iff_eq, isWithinSquare_iff]

/-- **C20 (verify)**: not-found / outside / success are consistent with the containment test — for any table, any
operations (`α` arbitrary) -/
theorem verifyTrigger_spec {α : Type} (o : Ops α) (tbl : List (Nat × Shape α)) (pmap : Nat) (p : V3 α) (id : Nat) :
    (verifyTrigger o tbl pmap p id = .notFound ↔ ∀ e ∈ tbl, e.1 ≠ id) ∧
    (∀ e, tbl.find? (fun e => e.1 == id) = some e →
      (verifyTrigger o tbl pmap p id = .success ↔ contains o e.2 pmap p = true) ∧
      (verifyTrigger o tbl pmap p id = .notInside ↔ contains o e.2 pmap p = false)) := by
  unfold verifyTrigger
  constructor
  · cases hf : tbl.find? (fun e => e.1 == id) with
    | none =>
      simp only [true_iff]
      intro e he heq
      have := List.find?_eq_none.mp hf e he
      simp [heq] at this
    | some e =>
      have hm := List.mem_of_find?_eq_some hf
      have hp := List.find?_some hf
      simp only [beq_iff_eq] at hp
      constructor
      · intro h; by_cases hc : contains o e.2 pmap p = true <;> simp [hc] at h
      · intro h; exact absurd hp (h e hm)
  · intro e he
    rw [he]
    by_cases hc : contains o e.2 pmap p = true <;> simp [hc]

/-! ### non-vacuity / the defect that was repaired
With the former sign (`dy·cos − dx·sin`) the y coordinate is not the frame coordinate: for yaw = π/2 the box axis e₁ is
the world y axis, so the point (0, 9, 0) lies 9 yards along a 20 yard long box and must be inside. -/
example : isWithinSquare realOps ⟨0, 9, 0⟩ ⟨0, 0, 0⟩ 20 2 2 (Real.pi / 2) = true := by
  rw [isWithinSquare_iff]
  simp [frameU, frameV, Real.cos_pi_div_two, Real.sin_pi_div_two]
  norm_num [abs_of_pos]

end WowVerif.Geometry

open WowVerif.Geometry in
#print axioms frame_reconstruct
open WowVerif.Geometry in
#print axioms boxCoords_eq
open WowVerif.Geometry in
#print axioms isWithinSquare_iff
open WowVerif.Geometry in
#print axioms distanceBetween_eq
open WowVerif.Geometry in
#print axioms contains_circle_iff
open WowVerif.Geometry in
#print axioms contains_square_iff
open WowVerif.Geometry in
#print axioms verifyTrigger_spec
