/-
C07 / C02 / C01 — the declared size as a function of the value: the term list `szMs c` the definition prescribes (Model/SizeFn.lean)
evaluates, on every value the definition can encode, to exactly the number of bytes of the encoding (`size_fn_sound`).  The generated
Rust `size()` functions are translated into the same syntax and compared with `szMs` of their definition (driver `sizeeq`), so a
`size()` that matches computes the length of what the matching writer writes — for every value at once.
-/
import WowVerif.Model.SizeFn
import WowVerif.Thm.C01
import WowVerif.Thm.C04
namespace WowVerif.Sem

theorem fixed_enc_len (t : Ty) (n : Nat) (hw : wfTy t = true) (hf : fixedTy t = some n) (env : Env) (v : Val) (b : Bytes)
    (h : encTy t env v = some b) : b.length = n := by
  have hd := rtTy t env v b [] hw h
  have := fixedTy_consumes t n hf env (b ++ []) v [] hd
  simpa using this

theorem sumMap_iterEnc (f : Val → Option Bytes) (g : Val → Option Nat) :
    ∀ (vs : List Val) (b : Bytes), (∀ v b', v ∈ vs → f v = some b' → g v = some b'.length) → iterEnc f vs = some b →
      sumMap g vs = some b.length
  | [], b, _, h => by simp [iterEnc] at h; subst h; rfl
  | v :: vs, b, hg, h => by
    simp only [iterEnc] at h
    cases h1 : f v with
    | none => simp [h1] at h
    | some b1 =>
      cases h2 : iterEnc f vs with
      | none => simp [h1, h2] at h
      | some b2 =>
        simp only [h1, h2, Option.some.injEq] at h
        subst h
        have a := hg v b1 (by simp) h1
        have c := sumMap_iterEnc f g vs b2 (fun v' b' hm hv => hg v' b' (by simp [hm]) hv) h2
        simp [sumMap, a, c]

theorem iterEnc1_iterEnc (f : Val → Option Bytes) : ∀ (vs : List Val) (b : Bytes), iterEnc1 f vs = some b → iterEnc f vs = some b
  | [], b, h => by simpa [iterEnc1, iterEnc] using h
  | v :: vs, b, h => by
    simp only [iterEnc1] at h
    cases h1 : f v with
    | none => simp [h1] at h
    | some b1 =>
      cases b1 with
      | nil => simp [h1] at h
      | cons x b1 =>
        cases h2 : iterEnc1 f vs with
        | none => simp [h1, h2] at h
        | some b2 =>
          simp only [h1, h2, Option.some.injEq] at h
          subst h
          simp [iterEnc, h1, iterEnc1_iterEnc f vs b2 h2]

theorem iterEnc_const_len (f : Val → Option Bytes) (k : Nat) :
    ∀ (vs : List Val) (b : Bytes), (∀ v b', f v = some b' → b'.length = k) → iterEnc f vs = some b → b.length = vs.length * k
  | [], b, _, h => by simp [iterEnc] at h; subst h; simp
  | v :: vs, b, hk, h => by
    simp only [iterEnc] at h
    cases h1 : f v with
    | none => simp [h1] at h
    | some b1 =>
      cases h2 : iterEnc f vs with
      | none => simp [h1, h2] at h
      | some b2 =>
        simp only [h1, h2, Option.some.injEq] at h
        subst h
        have a := hk v b1 h1
        have c := iterEnc_const_len f k vs b2 hk h2
        simp only [List.length_append, List.length_cons, a, c, Nat.succ_mul]; omega

theorem szLeaf_sound (l : Leaf) (v : Val) (b : Bytes) (h : encLeaf l v = some b) : szEval (szLeaf l) v = some b.length := by
  cases l with
  | int k e =>
    have := fixed_enc_len (.leaf (.int k e)) k rfl rfl [] v b (by simpa [encTy] using h)
    simp [szLeaf, szEval, this]
  | bool k =>
    have := fixed_enc_len (.leaf (.bool k)) k rfl rfl [] v b (by simpa [encTy] using h)
    simp [szLeaf, szEval, this]
  | enumT k e vals =>
    have := fixed_enc_len (.leaf (.enumT k e vals)) k rfl rfl [] v b (by simpa [encTy] using h)
    simp [szLeaf, szEval, this]
  | lvl k =>
    have := fixed_enc_len (.leaf (.lvl k)) k rfl rfl [] v b (by simpa [encTy] using h)
    simp [szLeaf, szEval, this]
  | dateTime =>
    have := fixed_enc_len (.leaf .dateTime) 4 rfl rfl [] v b (by simpa [encTy] using h)
    simp [szLeaf, szEval, this]
  | cstring =>
    cases v <;> simp only [encLeaf] at h <;> try (cases h)
    split at h
    · cases h
    · injection h with h; subst h; simp [szLeaf, szEval]
  | sizedCString =>
    cases v <;> simp only [encLeaf] at h <;> try (cases h)
    rename_i s
    split at h
    · cases h
    · cases h0 : encInt 4 .le (s.length + 1) with
      | none => simp [h0] at h
      | some c =>
        simp only [h0, Option.map_some, Option.some.injEq] at h
        subst h
        have := encInt_length 4 .le _ c h0
        simp [szLeaf, szEval]; omega
  | string =>
    cases v <;> simp only [encLeaf] at h <;> try (cases h)
    rename_i s
    cases h0 : encInt 1 .le s.length with
    | none => simp [h0] at h
    | some c =>
      simp only [h0, Option.map_some, Option.some.injEq] at h
      subst h
      have := encInt_length 1 .le _ c h0
      simp [szLeaf, szEval]; omega
  | packedGuid =>
    cases v <;> simp only [encLeaf] at h <;> try (cases h)
    split at h
    · simp only [Option.some.injEq] at h
      subst h
      simp [szLeaf, szEval]; omega
    · cases h
  | prim nm =>
    have h' : encPrim nm v = some b := by cases v <;> simpa [encLeaf] using h
    simp [szLeaf, szEval, h']

private theorem wfMs_cons' (m : Member) (ms : Members) (h : wfMs (.cons m ms) = true) : wfM m = true ∧ wfMs ms = true := by
  cases ms with
  | nil => simp only [wfMs] at h; exact ⟨h, rfl⟩
  | cons m' ms' =>
    simp only [wfMs, Bool.and_eq_true] at h
    exact ⟨h.1.2, h.2⟩

mutual
theorem szTy_sound : ∀ (t : Ty) (env : Env) (v : Val) (b : Bytes), wfTy t = true → supported (szTy t) = true →
    encTy t env v = some b → szEval (szTy t) v = some b.length
  | .leaf l, env, v, b, _, _, h => by
    simp only [encTy] at h
    simp only [szTy]
    exact szLeaf_sound l v b h
  | .struct ms, env, v, b, hw, hs, h => by
    simp only [szTy] at hs ⊢
    cases hf : fixedMs ms with
    | some n =>
      have := fixed_enc_len (.struct ms) n hw (by simpa [fixedTy] using hf) env v b h
      simp [szEval, this]
    | none =>
      simp only [hf] at hs ⊢
      cases v with
      | tuple vs =>
        simp only [encTy] at h
        cases hm : encMembers ms [] vs with
        | none => simp [hm] at h
        | some p =>
          obtain ⟨b', e'⟩ := p
          simp [hm] at h
          subst h
          simp only [wfTy, Bool.and_eq_true] at hw
          simp only [supported] at hs
          simp only [szEval]
          exact szMs_sound ms [] vs b' e' hw.2 hs hm
      | nat _ => simp [encTy] at h
      | bytes _ => simp [encTy] at h
      | list _ => simp [encTy] at h
      | none => simp [encTy] at h
  | .arrFixed n t, env, v, b, hw, hs, h => by
    simp only [szTy] at hs ⊢
    cases hf : fixedTy t with
    | some k =>
      have := fixed_enc_len (.arrFixed n t) (n * k) hw (by simp [fixedTy, hf]) env v b h
      simp [szEval, this]
    | none =>
      simp only [hf] at hs ⊢
      cases v with
      | list vs =>
        simp only [encTy] at h
        split at h
        · simp only [wfTy] at hw
          simp only [supported] at hs
          simp only [szEval]
          exact sumMap_iterEnc (encTy t env) (szEval (szTy t)) vs b (fun v' b' _ hv => szTy_sound t env v' b' hw hs hv) h
        · cases h
      | nat _ => simp [encTy] at h
      | bytes _ => simp [encTy] at h
      | tuple _ => simp [encTy] at h
      | none => simp [encTy] at h
  | .arrVar var t, env, v, b, hw, hs, h => by
    simp only [szTy] at hs ⊢
    cases v with
    | list vs =>
      simp only [encTy] at h
      split at h
      · simp only [wfTy] at hw
        cases hf : fixedTy t with
        | some k =>
          have := iterEnc_const_len (encTy t env) k vs b (fun v' b' hv => fixed_enc_len t k hw hf env v' b' hv) h
          simp [szEval, this]
        | none =>
          simp only [hf] at hs ⊢
          simp only [supported] at hs
          simp only [szEval]
          exact sumMap_iterEnc (encTy t env) (szEval (szTy t)) vs b (fun v' b' _ hv => szTy_sound t env v' b' hw hs hv) h
      · cases h
    | nat _ => simp [encTy] at h
    | bytes _ => simp [encTy] at h
    | tuple _ => simp [encTy] at h
    | none => simp [encTy] at h
theorem szM_sound : ∀ (m : Member) (env : Env) (v : Val) (b : Bytes) (e' : Env), wfM m = true → supported (szM m) = true →
    encMember m env v = some (b, e') → szEval (szM m) v = some b.length
  | .field id role t, env, v, b, e', hw, hs, h => by
    simp only [encMember] at h
    split at h
    · cases ht : encTy t env v with
      | none => simp [ht] at h
      | some b1 =>
        simp [ht] at h
        obtain ⟨hb, _⟩ := h
        subst hb
        simp only [wfM] at hw
        simp only [szM] at hs ⊢
        exact szTy_sound t env v b1 hw hs ht
    · cases h
  | .endless id t, env, v, b, e', hw, hs, h => by
    simp only [wfM] at hw
    simp only [szM] at hs ⊢
    cases v with
    | list vs =>
      simp only [encMember] at h
      cases h1 : iterEnc1 (encTy t env) vs with
      | none => simp [h1] at h
      | some b1 =>
        simp only [h1, Option.map_some, Option.some.injEq, Prod.mk.injEq] at h
        obtain ⟨hb, _⟩ := h
        subst hb
        have h2 := iterEnc1_iterEnc (encTy t env) vs b1 h1
        cases hf : fixedTy t with
        | some k =>
          have := iterEnc_const_len (encTy t env) k vs b1 (fun v' b' hv => fixed_enc_len t k hw hf env v' b' hv) h2
          simp [szEval, this]
        | none =>
          simp only [hf] at hs ⊢
          simp only [supported] at hs
          simp only [szEval]
          exact sumMap_iterEnc (encTy t env) (szEval (szTy t)) vs b1 (fun v' b' _ hv => szTy_sound t env v' b' hw hs hv) h2
    | nat _ => simp [encMember] at h
    | bytes _ => simp [encMember] at h
    | tuple _ => simp [encMember] at h
    | none => simp [encMember] at h
  | .ifs _ _, env, v, b, e', hw, hs, h => by simp [szM, supported] at hs
  | .optional ms, env, v, b, e', hw, hs, h => by
    simp only [wfM] at hw
    simp only [szM, supported] at hs
    simp only [szM]
    cases v with
    | none =>
      simp only [encMember, Option.some.injEq, Prod.mk.injEq] at h
      rw [← h.1]; simp [szEval]
    | tuple vs =>
      simp only [encMember] at h
      cases hm : encMembers ms env vs with
      | none => simp [hm] at h
      | some p =>
        obtain ⟨b', e2⟩ := p
        cases b' with
        | nil => simp [hm] at h
        | cons x b' =>
          simp only [hm, Option.some.injEq, Prod.mk.injEq] at h
          rw [← h.1]
          simp only [szEval]
          exact szMs_sound ms env vs (x :: b') e2 hw hs hm
    | nat _ => simp [encMember] at h
    | bytes _ => simp [encMember] at h
    | list _ => simp [encMember] at h
theorem szMs_sound : ∀ (ms : Members) (env : Env) (vs : List Val) (b : Bytes) (e' : Env), wfMs ms = true → supportedS (szMs ms) = true →
    encMembers ms env vs = some (b, e') → szSum (szMs ms) vs = some b.length
  | .nil, env, vs, b, e', _, _, h => by
    cases vs with
    | nil => simp only [encMembers, Option.some.injEq, Prod.mk.injEq] at h; rw [← h.1]; simp [szMs, szSum]
    | cons _ _ => simp [encMembers] at h
  | .cons m ms, env, vs, b, e', hw, hs, h => by
    obtain ⟨hwm, hwms⟩ := wfMs_cons' m ms hw
    simp only [szMs, supportedS, Bool.and_eq_true] at hs
    cases vs with
    | nil => cases m with
      | field id role t => cases role <;> simp [encMembers] at h
      | ifs _ _ => simp [encMembers] at h
      | endless _ _ => simp [encMembers] at h
      | optional _ => simp [encMembers] at h
    | cons v vs =>
      by_cases hss : isSelfSize m = true
      · cases m with
        | field id role t =>
          cases role with
          | selfSize =>
            simp only [encMembers] at h
            cases he2 : encMembers ms (env.bind id v) vs with
            | none => simp [he2] at h
            | some p2 =>
              obtain ⟨b2, env2⟩ := p2
              simp only [he2] at h
              cases v with
              | nat n =>
                simp only at h
                split at h
                · cases he1 : encTy t env (.nat n) with
                  | none => simp [he1] at h
                  | some b1 =>
                    simp only [he1, Option.map_some, Option.some.injEq, Prod.mk.injEq] at h
                    obtain ⟨h1, _⟩ := h
                    subst h1
                    simp only [wfM] at hwm
                    have w1 := szTy_sound t env (.nat n) b1 hwm (by simpa [szM] using hs.1) he1
                    have w2 := szMs_sound ms (env.bind id (.nat n)) vs b2 env2 hwms hs.2 he2
                    simp [szMs, szSum, szM, w1, w2]
                · cases h
              | bytes _ => simp at h
              | tuple _ => simp at h
              | list _ => simp at h
              | none => simp at h
          | plain => simp [isSelfSize] at hss
          | const c => simp [isSelfSize] at hss
        | ifs _ _ => simp [isSelfSize] at hss
        | endless _ _ => simp [isSelfSize] at hss
        | optional _ => simp [isSelfSize] at hss
      · have hss' : isSelfSize m = false := by simpa using hss
        rw [encMembers_cons_general m ms env v vs hss'] at h
        cases he1 : encMember m env v with
        | none => simp [he1] at h
        | some p1 =>
          obtain ⟨b1, env1⟩ := p1
          simp only [he1] at h
          cases he2 : encMembers ms env1 vs with
          | none => simp [he2] at h
          | some p2 =>
            obtain ⟨b2, env2⟩ := p2
            simp only [he2, Option.some.injEq, Prod.mk.injEq] at h
            obtain ⟨h1, _⟩ := h
            subst h1
            have w1 := szM_sound m env v b1 env1 hwm hs.1 he1
            have w2 := szMs_sound ms env1 vs b2 env2 hwms hs.2 he2
            simp [szMs, szSum, w1, w2]
end

/-- **the prescribed size function computes the length of the encoding**, for every well-formed definition without conditional members
and every value it can encode -/
theorem size_fn_sound (c : Members) (hw : wfMs c = true) (hs : supportedS (szMs c) = true) (vs : List Val) (b : Bytes)
    (h : encode c vs = some b) : szSum (szMs c) vs = some b.length := by
  unfold encode at h
  cases he : encMembers c [] vs with
  | none => simp [he] at h
  | some p =>
    obtain ⟨b', e'⟩ := p
    simp [he] at h
    subst h
    exact szMs_sound c [] vs b' e' hw hs he

/-- … hence a translated `size()` that matches (`sizeMatches`) is the length of every encoding of its definition -/
theorem size_matches_sound (c : Members) (rust : SzTs) (hm : sizeMatches c rust = true) (hw : wfMs c = true) (hs : supportedS rust = true)
    (vs : List Val) (b : Bytes) (h : encode c vs = some b) : szSum rust vs = some b.length := by
  have he : szMs c = rust := by simpa [sizeMatches] using hm
  subst he
  exact size_fn_sound c hw hs vs b h

/-- non-vacuity: u8 count, counted array of CStrings, packed guid, u32 — the value (2, ["a", ""], 0x0100, 7) has 1 + (2 + 1) + 2 + 4 bytes -/
example :
    let c : Members := .cons (.field 0 .plain (.leaf (.int 1 .le))) (.cons (.field 1 .plain (.arrVar 0 (.leaf .cstring)))
      (.cons (.field 2 .plain (.leaf .packedGuid)) (.cons (.field 3 .plain (.leaf (.int 4 .le))) .nil)))
    let vs : List Val := [.nat 2, .list [.bytes [97], .bytes []], .nat 256, .nat 7]
    wfMs c = true ∧ supportedS (szMs c) = true ∧ (encode c vs).map (·.length) = some 10 ∧ szSum (szMs c) vs = some 10 := by
  decide

end WowVerif.Sem

open WowVerif.Sem in
#print axioms size_fn_sound
open WowVerif.Sem in
#print axioms size_matches_sound
