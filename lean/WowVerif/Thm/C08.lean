/-
C08 — generated artefacts are a deterministic, reproducible function of the wowm (model of the run on file trees).
The theorems pin down WHICH starting states must converge to the same tree; the check (checks/c08.py) then runs the real
generator from such states and compares with the model's prediction.
-/
import WowVerif.Model.GenFS
namespace WowVerif.GenFS

/-- a second run changes nothing -/
theorem run_idem (g : Gen) (T : Tree) : run g (run g T) = run g T := by
  funext p
  simp only [run]
  cases ho : g.out p with
  | some c => rfl
  | none =>
    cases hr : g.region p with
    | some f =>
      simp only []
      cases hT : T p with
      | none => rfl
      | some c => simp [g.region_idem p f c hr]
    | none =>
      simp only []
      cases hs : g.swept p <;> simp

/-- every fully generated file is reproduced whatever the starting state holds at its path
(deleted, truncated, garbled, stale: all the same) -/
theorem run_reproduces (g : Gen) (T : Tree) (p : Path) (c : Content) (h : g.out p = some c) : run g T p = some c := by
  simp [run, h]

/-- files of the swept directories that no longer correspond to a definition are removed -/
theorem run_no_stale (g : Gen) (T : Tree) (p : Path) (ho : g.out p = none) (hr : g.region p = none) (hs : g.swept p = true) :
    run g T p = none := by
  simp [run, ho, hr, hs]

/-- two starting states that agree outside the generated files and the swept directories, and whose host files agree up
to the marked region, converge to the same tree -/
theorem run_converges (g : Gen) (T T' : Tree)
    (h : ∀ p, g.out p = none →
      (∀ f, g.region p = some f → (T p).map f = (T' p).map f) ∧ (g.region p = none → g.swept p = false → T p = T' p)) :
    run g T = run g T' := by
  funext p
  simp only [run]
  cases ho : g.out p with
  | some c => rfl
  | none =>
    obtain ⟨h1, h2⟩ := h p ho
    cases hr : g.region p with
    | some f => exact h1 f hr
    | none =>
      simp only []
      cases hs : g.swept p with
      | true => rfl
      | false => simp [h2 hr hs]

/-! ### non-vacuity -/
def exGen : Gen where
  out := fun p => if p = 1 then some 10 else none
  region := fun p => if p = 2 then some (fun _ => 7) else none
  swept := fun p => p = 3
  region_idem := by
    intro p f c h
    split at h
    · injection h with h; subst h; rfl
    · cases h
example : run exGen (fun p => if p = 3 then some 99 else if p = 2 then some 5 else none) 3 = none := by decide
example : run exGen (fun _ => none) 1 = some 10 := by decide

end WowVerif.GenFS

open WowVerif.GenFS in
#print axioms run_idem
open WowVerif.GenFS in
#print axioms run_reproduces
open WowVerif.GenFS in
#print axioms run_no_stale
open WowVerif.GenFS in
#print axioms run_converges
