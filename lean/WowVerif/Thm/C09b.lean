/-
C09 — the computed MINIMUM bounds every valid encoding, for every closed program (no well-formedness or limit hypothesis):
`bounds_lo_sound`.  (The maximum needs the published per-type limits as hypotheses on the value — strings up to 255 bytes,
counts within their field's range, bodies within the frame limit — and is proved per leaf in Thm/C09.lean, `leaf_bounds_sound`.)
-/
import WowVerif.Thm.C09
import WowVerif.Thm.C01
namespace WowVerif.Sem

/-- a built-in value is never a number: it binds no variable -/
theorem encPrim_bind (n : String) (v : Val) (b : Bytes) (env : Env) (id : Nat) (h : encPrim n v = some b) : env.bind id v = env := by
  cases v with
  | nat k =>
    unfold encPrim at h
    cases hk : primKind n <;> simp [hk, encUpdateMask, encMask, encNamedGuid, encVirp] at h
  | _ => rfl

theorem iterEnc_u32_length : ∀ (vs : List Val) (b : Bytes), iterEnc encU32V vs = some b → b.length = 4 * vs.length
  | [], b, h => by simp [iterEnc] at h; subst h; rfl
  | v :: vs, b, h => by
    simp only [iterEnc] at h
    cases h1 : encU32V v with
    | none => simp [h1] at h
    | some b1 =>
      cases h2 : iterEnc encU32V vs with
      | none => simp [h1, h2] at h
      | some b2 =>
        simp only [h1, h2, Option.some.injEq] at h
        subst h
        have l1 : b1.length = 4 := by
          cases v with
          | nat k => simp only [encU32V] at h1; exact encInt_length 4 .le k b1 h1
          | _ => simp [encU32V] at h1
        have := iterEnc_u32_length vs b2 h2
        simp; omega

theorem encUpdateMask_lo (v : Val) (b : Bytes) (h : encUpdateMask v = some b) : 9 ≤ b.length := by
  unfold encUpdateMask at h
  split at h
  · rename_i masks values
    split at h
    · rename_i hc
      cases h0 : encInt 1 .le masks.length with
      | none => simp [h0] at h
      | some c =>
        cases h1 : iterEnc encU32V masks with
        | none => simp [h0, h1] at h
        | some mb =>
          cases h2 : iterEnc encU32V values with
          | none => simp [h0, h1, h2] at h
          | some vb =>
            simp only [h0, h1, h2, Option.some.injEq] at h
            subst h
            have lc := encInt_length 1 .le _ c h0
            have lm := iterEnc_u32_length masks mb h1
            have lv := iterEnc_u32_length values vb h2
            have hm : 1 ≤ masks.length := by
              cases masks with
              | nil => simp [umTypeOk] at hc
              | cons m0 ms => simp
            have hv : 1 ≤ values.length := by
              cases masks with
              | nil => simp [umTypeOk] at hc
              | cons m0 ms =>
                have ht := hc.2
                simp only [umTypeOk, Bool.and_eq_true] at ht
                cases hvv : values[natOf m0 % 2 + natOf m0 / 2 % 2]? with
                | none => simp [hvv] at ht
                | some ty =>
                  have := List.getElem?_eq_some_iff.mp hvv
                  obtain ⟨hlt, _⟩ := this
                  omega
            simp; omega
    · cases h
  · cases h

theorem encMask_lo (w : Nat) (enc : Val → Option Bytes) (v : Val) (b : Bytes) (h : encMask w enc v = some b) : w ≤ b.length := by
  cases v with
  | list slots =>
    simp only [encMask] at h
    split at h
    · cases h1 : encSlots enc slots with
      | none => simp [h1] at h
      | some q =>
        obtain ⟨m, sb⟩ := q
        simp only [h1] at h
        cases h2 : encInt w .le (bitsToNat m) with
        | none => simp [h2] at h
        | some pb =>
          simp only [h2, Option.map_some, Option.some.injEq] at h
          subst h
          have := encInt_length w .le _ pb h2
          simp; omega
    · cases h
  | _ => simp [encMask] at h

theorem encNamedGuid_lo (v : Val) (b : Bytes) (h : encNamedGuid v = some b) : 8 ≤ b.length := by
  unfold encNamedGuid at h
  split at h
  · split at h
    · simp [encInt_length 8 .le _ b h]
    · cases h
  · rename_i g s
    split at h
    · cases h0 : encInt 8 .le g with
      | none => simp [h0] at h
      | some gb =>
        simp only [h0, Option.map_some, Option.some.injEq] at h
        subst h
        have := encInt_length 8 .le _ gb h0
        simp; omega
    · cases h
  · cases h

theorem encVirp_lo (v : Val) (b : Bytes) (h : encVirp v = some b) : 4 ≤ b.length := by
  unfold encVirp at h
  split at h
  · split at h
    · simp [encInt_length 4 .le _ b h]
    · cases h
  · rename_i id sf
    split at h
    · cases h0 : encInt 4 .le id with
      | none => simp [h0] at h
      | some a =>
        cases h1 : encInt 4 .le sf with
        | none => simp [h0, h1] at h
        | some c =>
          simp only [h0, h1, Option.some.injEq] at h
          subst h
          have := encInt_length 4 .le _ a h0
          simp; omega
    · cases h
  · cases h

/-! upper bound of the fixed-layout masks (`primBounds … .hi`): pattern bytes plus at most one maximal element per slot -/
theorem encB_hi (l : BLeaf) (n : Nat) (b : Bytes) (h : encB l n = some b) : b.length ≤ bleafMax [l] := by
  cases l with
  | u8 => simp only [encB] at h; simp [bleafMax, encInt_length 1 .le _ b h]
  | u16 => simp only [encB] at h; simp [bleafMax, encInt_length 2 .le _ b h]
  | u32 => simp only [encB] at h; simp [bleafMax, encInt_length 4 .le _ b h]
  | pg =>
    simp only [encB] at h
    split at h
    · simp only [Option.some.injEq] at h
      subst h
      have h8 : (encLE 8 n).length = 8 := length_encLE 8 n
      have hp2 : ∀ bs : Bytes, (packBytes bs).2.length ≤ bs.length := by
        intro bs
        induction bs with
        | nil => simp [packBytes]
        | cons x bs ih => simp only [packBytes]; split <;> simp <;> omega
      have := hp2 (encLE 8 n)
      simp [bleafMax]; omega
    · cases h
  | bool32 =>
    simp only [encB] at h
    split at h
    · simp [bleafMax, encInt_length 4 .le _ b h]
    · cases h
  | dt =>
    simp only [encB] at h
    split at h
    · simp [bleafMax, encInt_length 4 .le _ b h]
    · cases h

theorem bleafMax_cons (l : BLeaf) (ls : List BLeaf) : bleafMax (l :: ls) = bleafMax [l] + bleafMax ls := by
  cases l <;> simp [bleafMax]

theorem encBs_hi : ∀ (ls : List BLeaf) (vs : List Val) (b : Bytes), encBs ls vs = some b → b.length ≤ bleafMax ls
  | [], [], b, h => by simp only [encBs, Option.some.injEq] at h; subst h; simp [bleafMax]
  | [], _ :: _, b, h => by simp [encBs] at h
  | l :: ls, [], b, h => by simp [encBs] at h
  | l :: ls, v :: vs, b, h => by
    cases v with
    | nat n =>
      simp only [encBs] at h
      cases h1 : encB l n with
      | none => simp [h1] at h
      | some b1 =>
        cases h2 : encBs ls vs with
        | none => simp [h1, h2] at h
        | some b2 =>
          simp only [h1, h2, Option.some.injEq] at h
          subst h
          have a := encB_hi l n b1 h1
          have c := encBs_hi ls vs b2 h2
          rw [bleafMax_cons]; simp; omega
    | _ => simp [encBs] at h

theorem encSlots_hi (enc : Val → Option Bytes) (k : Nat) (he : ∀ v b, enc v = some b → b.length ≤ k) :
    ∀ (vs : List Val) (m : List Bool) (b : Bytes), encSlots enc vs = some (m, b) → b.length ≤ vs.length * k
  | [], m, b, h => by
    simp only [encSlots, Option.some.injEq, Prod.mk.injEq] at h
    rw [← h.2]; simp
  | v :: vs, m, b, h => by
    cases v with
    | list es =>
      cases es with
      | nil =>
        simp only [encSlots] at h
        cases h1 : encSlots enc vs with
        | none => simp [h1] at h
        | some q =>
          obtain ⟨m1, b1⟩ := q
          simp only [h1, Option.some.injEq, Prod.mk.injEq] at h
          have ih := encSlots_hi enc k he vs m1 b1 h1
          rw [← h.2, List.length_cons, Nat.succ_mul]; omega
      | cons e es' =>
        cases es' with
        | nil =>
          simp only [encSlots] at h
          cases h0 : enc e with
          | none => simp [h0] at h
          | some eb =>
            cases h1 : encSlots enc vs with
            | none => simp [h0, h1] at h
            | some q =>
              obtain ⟨m1, b1⟩ := q
              simp only [h0, h1, Option.some.injEq, Prod.mk.injEq] at h
              have ih := encSlots_hi enc k he vs m1 b1 h1
              have a := he e eb h0
              rw [← h.2, List.length_cons, Nat.succ_mul, List.length_append]; omega
        | cons _ _ => simp [encSlots] at h
    | _ => simp [encSlots] at h

/-- a fixed-layout mask never exceeds the published maximum: `w` pattern bytes and `8·w` slots of the element's maximal size -/
theorem encMask_hi (w : Nat) (ls : List BLeaf) (v : Val) (b : Bytes) (h : encMask w (tupleOf ls) v = some b) :
    b.length ≤ w + 8 * w * bleafMax ls := by
  cases v with
  | list slots =>
    simp only [encMask] at h
    split at h
    · rename_i hl
      cases h1 : encSlots (tupleOf ls) slots with
      | none => simp [h1] at h
      | some q =>
        obtain ⟨m, sb⟩ := q
        simp only [h1] at h
        cases h2 : encInt w .le (bitsToNat m) with
        | none => simp [h2] at h
        | some pb =>
          simp only [h2, Option.map_some, Option.some.injEq] at h
          subst h
          have a := encInt_length w .le _ pb h2
          have c := encSlots_hi (tupleOf ls) (bleafMax ls) (fun v b hv => by
            cases v with
            | tuple fs => simp only [tupleOf] at hv; exact encBs_hi ls fs b hv
            | _ => simp [tupleOf] at hv) slots m sb h1
          rw [hl] at c
          simp; omega
    · cases h
  | _ => simp [encMask] at h

theorem encPrim_mask_hi (n : String) (w : Nat) (ls : List BLeaf) (hk : primKind n = .mask w ls) (v : Val) (b : Bytes) (h : encPrim n v = some b) :
    ∀ hi, (primBounds n).hi = some hi → b.length ≤ hi := by
  intro hi hh
  simp only [primBounds, hk, Option.some.injEq] at hh
  unfold encPrim at h
  simp only [hk] at h
  rw [← hh]; exact encMask_hi w ls v b h

theorem encVirp_hi (v : Val) (b : Bytes) (h : encVirp v = some b) : b.length ≤ 8 := by
  unfold encVirp at h
  split at h
  · split at h
    · simp [encInt_length 4 .le _ b h]
    · cases h
  · rename_i id sf
    split at h
    · cases h0 : encInt 4 .le id with
      | none => simp [h0] at h
      | some a =>
        cases h1 : encInt 4 .le sf with
        | none => simp [h0, h1] at h
        | some c =>
          simp only [h0, h1, Option.some.injEq] at h
          subst h
          have := encInt_length 4 .le _ a h0
          have := encInt_length 4 .le _ c h1
          simp; omega
    · cases h
  · cases h

/-- every maximum `primBounds` publishes for a built-in type whose size does not depend on a string length is sound -/
theorem encPrim_hi (n : String) (hng : primKind n ≠ .namedGuid) (v : Val) (b : Bytes) (h : encPrim n v = some b) :
    ∀ hi, (primBounds n).hi = some hi → b.length ≤ hi := by
  intro hi hh
  cases hk : primKind n with
  | mask w ls => exact encPrim_mask_hi n w ls hk v b h hi hh
  | virp =>
    simp only [primBounds, hk, Option.some.injEq] at hh
    unfold encPrim at h
    simp only [hk] at h
    rw [← hh]; exact encVirp_hi v b h
  | namedGuid => exact absurd hk hng
  | _ => simp [primBounds, hk] at hh

/-- the built-in codecs inside the semantics always emit their 4-byte terminator / count -/
theorem encPrim_lo (L : Limits) (n : String) (v : Val) (b : Bytes) (h : encPrim n v = some b) : (leafBounds L (.prim n)).lo ≤ b.length := by
  unfold encPrim at h
  simp only [leafBounds, primBounds]
  cases hk : primKind n with
  | achDone =>
    cases v with
    | list vs => simp only [hk] at h; have := encSent_length achDoneFields vs b h; simp; omega
    | _ => simp [hk] at h
  | achProg =>
    cases v with
    | list vs => simp only [hk] at h; have := encSent_length achProgFields vs b h; simp; omega
    | _ => simp [hk] at h
  | splines =>
    cases v with
    | list vs =>
      simp only [hk] at h
      cases vs with
      | nil => simp only [encSplines] at h; simp [encInt_length 4 .le _ b h]
      | cons p ps =>
        simp only [encSplines] at h
        cases h0 : encInt 4 .le (ps.length + 1) with
        | none => simp [h0] at h
        | some c =>
          cases h1 : tupleOf [.u32, .u32, .u32] p with
          | none => simp [h0, h1] at h
          | some b1 =>
            cases h2 : iterEnc (tupleOf [.u32]) ps with
            | none => simp [h0, h1, h2] at h
            | some b2 =>
              simp only [h0, h1, h2, Option.some.injEq] at h
              subst h
              have := encInt_length 4 .le _ c h0
              simp; omega
    | _ => simp [hk] at h
  | updateMask => simp only [hk] at h; exact encUpdateMask_lo v b h
  | mask w ls => simp only [hk] at h; exact encMask_lo w _ v b h
  | gear => simp only [hk] at h; exact encMask_lo 4 _ v b h
  | namedGuid => simp only [hk] at h; exact encNamedGuid_lo v b h
  | virp => simp only [hk] at h; exact encVirp_lo v b h
  | other => cases v <;> simp [hk] at h

theorem leaf_lo (L : Limits) (l : Leaf) (v : Val) (b : Bytes) (h : encLeaf l v = some b) : (leafBounds L l).lo ≤ b.length := by
  cases l with
  | int k e =>
    cases v <;> simp only [encLeaf] at h <;> try (cases h)
    have := encInt_length k e _ b h
    simp [leafBounds, this]
  | bool k =>
    cases v <;> simp only [encLeaf] at h <;> try (cases h)
    split at h
    · have := encInt_length k .le _ b h; simp [leafBounds, this]
    · cases h
  | enumT k e vals =>
    cases v <;> simp only [encLeaf] at h <;> try (cases h)
    split at h
    · have := encInt_length k e _ b h; simp [leafBounds, this]
    · cases h
  | lvl k =>
    cases v <;> simp only [encLeaf] at h <;> try (cases h)
    split at h
    · have := encInt_length k .le _ b h; simp [leafBounds, this]
    · cases h
  | dateTime =>
    cases v <;> simp only [encLeaf] at h <;> try (cases h)
    split at h
    · have := encInt_length 4 .le _ b h; simp [leafBounds, this]
    · cases h
  | cstring =>
    cases v <;> simp only [encLeaf] at h <;> try (cases h)
    split at h
    · cases h
    · injection h with h; subst h; simp [leafBounds]
  | sizedCString =>
    cases v <;> simp only [encLeaf] at h <;> try (cases h)
    rename_i s
    split at h
    · cases h
    · cases he : encInt 4 .le (s.length + 1) with
      | none => simp [he] at h
      | some hb =>
        simp [he] at h
        subst h
        have := encInt_length 4 .le _ hb he
        simp [leafBounds, this]; omega
  | string =>
    cases v <;> simp only [encLeaf] at h <;> try (cases h)
    rename_i s
    cases he : encInt 1 .le s.length with
    | none => simp [he] at h
    | some hb =>
      simp [he] at h
      subst h
      have := encInt_length 1 .le _ hb he
      simp [leafBounds, this]
  | packedGuid =>
    cases v <;> simp only [encLeaf] at h <;> try (cases h)
    split at h
    · injection h with h; subst h; simp [leafBounds]
    · cases h
  | prim n =>
    have h' : encPrim n v = some b := by cases v <;> simpa [encLeaf] using h
    exact encPrim_lo L n v b h'

theorem iter_lo (f : Val → Option Bytes) (lo : Nat) (h : ∀ v b, f v = some b → lo ≤ b.length) :
    ∀ (vs : List Val) (b : Bytes), iterEnc f vs = some b → vs.length * lo ≤ b.length := by
  intro vs
  induction vs with
  | nil => intro b hb; simp
  | cons v vs ih =>
    intro b hb
    simp only [iterEnc] at hb
    cases ha : f v with
    | none => simp [ha] at hb
    | some ba =>
      cases hc : iterEnc f vs with
      | none => simp [ha, hc] at hb
      | some bb =>
        simp [ha, hc] at hb
        subst hb
        have h1 := h v ba ha
        have h2 := ih bb hc
        simp only [List.length_cons, List.length_append, Nat.add_mul, Nat.one_mul]
        omega

mutual
theorem loTy (L : Limits) : ∀ (t : Ty) (se : SEnv) (env : Env) (v : Val) (b : Bytes), encTy t env v = some b → (boundsTy L t se).lo ≤ b.length
  | .leaf l, se, env, v, b, h => by simp only [encTy] at h; simp only [boundsTy]; exact leaf_lo L l v b h
  | .struct ms, se, env, v, b, h => by
      cases v with
      | tuple vs =>
        simp only [encTy] at h
        cases hm : encMembers ms [] vs with
        | none => simp [hm] at h
        | some p =>
          obtain ⟨b', e'⟩ := p
          simp [hm] at h
          subst h
          simp only [boundsTy]
          exact loMs L ms [] [] vs b' e' hm
      | nat _ => simp [encTy] at h
      | bytes _ => simp [encTy] at h
      | list _ => simp [encTy] at h
      | none => simp [encTy] at h
  | .arrFixed n t, se, env, v, b, h => by
      cases v with
      | list vs =>
        simp only [encTy] at h
        split at h
        · rename_i hn
          have := iter_lo (encTy t env) (boundsTy L t se).lo (fun v b hb => loTy L t se env v b hb) vs b h
          simp only [boundsTy]
          rw [← hn]; exact this
        · cases h
      | nat _ => simp [encTy] at h
      | bytes _ => simp [encTy] at h
      | tuple _ => simp [encTy] at h
      | none => simp [encTy] at h
  | .arrVar var t, se, env, v, b, h => by simp [boundsTy]
theorem loM (L : Limits) : ∀ (m : Member) (se : SEnv) (env : Env) (v : Val) (b : Bytes) (e' : Env),
    encMember m env v = some (b, e') → (boundsM L m se).1.lo ≤ b.length
  | .field id role t, se, env, v, b, e', h => by
      simp only [encMember] at h
      split at h
      · cases ht : encTy t env v with
        | none => simp [ht] at h
        | some b1 =>
          simp [ht] at h
          obtain ⟨hb, _⟩ := h
          subst hb
          simp only [boundsM]
          exact loTy L t se env v b1 ht
      · cases h
  | .ifs var bs, se, env, v, b, e', h => by
      cases v with
      | tuple vs =>
        simp only [encMember] at h
        cases hv : env.get var with
        | none => simp [hv] at h
        | some x =>
          simp only [hv] at h
          simp only [boundsM]
          exact loB L bs se x env vs b e' h
      | nat _ => simp [encMember] at h
      | bytes _ => simp [encMember] at h
      | list _ => simp [encMember] at h
      | none => simp [encMember] at h
  | .endless _ _, se, env, v, b, e', h => by simp [boundsM]
  | .optional _, se, env, v, b, e', h => by simp [boundsM]
theorem loB (L : Limits) : ∀ (bs : Branches) (se : SEnv) (x : Nat) (env : Env) (vs : List Val) (b : Bytes) (e' : Env),
    encBranches bs x env vs = some (b, e') → (boundsB L bs se).lo ≤ b.length
  | .els ms, se, x, env, vs, b, e', h => by
      simp only [encBranches] at h
      simp only [boundsB]
      exact loMs L ms se env vs b e' h
  | .cons c ms bs, se, x, env, vs, b, e', h => by
      simp only [encBranches] at h
      simp only [boundsB, Bounds.join]
      by_cases hc : c.holds x = true
      · simp only [hc, if_true] at h
        have := loMs L ms se env vs b e' h
        omega
      · simp only [hc] at h
        have := loB L bs se x env vs b e' h
        omega
theorem loMs (L : Limits) : ∀ (ms : Members) (se : SEnv) (env : Env) (vs : List Val) (b : Bytes) (e' : Env),
    encMembers ms env vs = some (b, e') → (boundsMs L ms se).lo ≤ b.length
  | .nil, se, env, vs, b, e', h => by simp [boundsMs, Bounds.zero]
  | .cons m ms, se, env, vs, b, e', h => by
      cases vs with
      | nil => cases m with
        | field id role t => cases role <;> simp [encMembers] at h
        | ifs _ _ => simp [encMembers] at h
        | endless _ _ => simp [encMembers] at h
        | optional _ => simp [encMembers] at h
      | cons v vs =>
        simp only [boundsMs, Bounds.add]
        by_cases hss : isSelfSize m = true
        · cases m with
          | field id role t =>
            cases role with
            | selfSize =>
              simp only [encMembers] at h
              cases he2 : encMembers ms (env.bind id v) vs with
              | none => simp [he2] at h
              | some p2 =>
                obtain ⟨b2, env2⟩ := p2
                simp only [he2] at h
                cases v with
                | nat n =>
                  simp only at h
                  split at h
                  · cases he1 : encTy t env (.nat n) with
                    | none => simp [he1] at h
                    | some b1 =>
                      simp only [he1, Option.map_some, Option.some.injEq, Prod.mk.injEq] at h
                      obtain ⟨h1, _⟩ := h
                      subst h1
                      have w1 := loTy L t se env (.nat n) b1 he1
                      have w2 := loMs L ms (boundsM L (.field id .selfSize t) se).2 (env.bind id (.nat n)) vs b2 env2 he2
                      simp only [boundsM] at *
                      simp only [List.length_append]
                      omega
                  · cases h
                | bytes _ => simp at h
                | tuple _ => simp at h
                | list _ => simp at h
                | none => simp at h
            | plain => simp [isSelfSize] at hss
            | const c => simp [isSelfSize] at hss
          | ifs _ _ => simp [isSelfSize] at hss
          | endless _ _ => simp [isSelfSize] at hss
          | optional _ => simp [isSelfSize] at hss
        · have hss' : isSelfSize m = false := by simpa using hss
          rw [encMembers_cons_general m ms env v vs hss'] at h
          cases he1 : encMember m env v with
          | none => simp [he1] at h
          | some p1 =>
            obtain ⟨b1, env1⟩ := p1
            simp only [he1] at h
            cases he2 : encMembers ms env1 vs with
            | none => simp [he2] at h
            | some p2 =>
              obtain ⟨b2, env2⟩ := p2
              simp only [he2, Option.some.injEq, Prod.mk.injEq] at h
              obtain ⟨h1, _⟩ := h
              subst h1
              have w1 := loM L m se env v b1 env1 he1
              have w2 := loMs L ms (boundsM L m se).2 env1 vs b2 env2 he2
              simp only [List.length_append]
              omega
end

/-- **the computed minimum size bounds every encoding** of every closed program -/
theorem bounds_lo_sound (L : Limits) (c : Members) (vs : List Val) (b : Bytes) (h : encode c vs = some b) :
    (bounds L c).lo ≤ b.length := by
  unfold encode at h
  cases he : encMembers c [] vs with
  | none => simp [he] at h
  | some p =>
    obtain ⟨b', e'⟩ := p
    simp [he] at h
    subst h
    exact loMs L c [] [] vs b' e' he

end WowVerif.Sem

open WowVerif.Sem in
#print axioms bounds_lo_sound
open WowVerif.Sem in
#print axioms encMask_hi
open WowVerif.Sem in
#print axioms encPrim_mask_hi
open WowVerif.Sem in
#print axioms encPrim_hi
