/-
C02 — the typed expect helpers consume exactly the announced bytes WHATEVER type they were asked for: a message of another type
is reported as an opcode error and the stream is left at the next message (`expect_any`), for every finite session (`expect_stream`).
-/
import WowVerif.Thm.C02
import WowVerif.Model.FrameExpect
namespace WowVerif.Frame

/-- one call on a written frame: the expected message, or the opcode error — the rest of the stream is untouched either way -/
theorem expect_any (want : Nat) (e : Exp) (d : Dir) (op : Nat) (body rest : Bytes)
    (hb : body.length ≤ maxBodyCode e d) (hop : op < opBound d) :
    ∃ v, writeFrame e d op body = .ok v ∧ expectFrame want e d (v ++ rest) = .ok (expectedOf d want (op, body), rest) := by
  obtain ⟨v, hv, hr⟩ := read_write e d .expect op body rest hb hop
  refine ⟨v, hv, ?_⟩
  simp only [expectFrame, hr, expectedOf]
  split <;> rfl

/-- every session: whatever types are asked for, call k answers about message k and the reader ends exactly at the end -/
theorem expect_stream (e : Exp) (d : Dir) (ms : List (Nat × Bytes)) (wants : List Nat) (rest : Bytes)
    (hl : wants.length = ms.length)
    (h : ∀ m ∈ ms, m.2.length ≤ maxBodyCode e d ∧ m.1 < opBound d) :
    ∃ s, writeAll e d ms = some s ∧
      expectN e d wants (s ++ rest) = .ok (List.zipWith (fun w m => expectedOf d w m) wants ms, rest) := by
  induction ms generalizing wants with
  | nil =>
    cases wants with
    | nil => exact ⟨[], rfl, rfl⟩
    | cons _ _ => simp at hl
  | cons m ms ih =>
    cases wants with
    | nil => simp at hl
    | cons w ws =>
      obtain ⟨op, body⟩ := m
      have hl' : ws.length = ms.length := by simpa using hl
      obtain ⟨s, hs, hr⟩ := ih ws hl' (fun m hm => h m (List.mem_cons_of_mem _ hm))
      have hm := h (op, body) (List.mem_cons_self)
      obtain ⟨v, hv, hrv⟩ := expect_any w e d op body (s ++ rest) hm.1 hm.2
      refine ⟨v ++ s, ?_, ?_⟩
      · simp only [writeAll, hv, hs]
      · simp only [expectN, List.append_assoc, hrv, hr, List.zipWith_cons_cons]

/-- non-vacuity: a session of two written messages, the first asked for as another type (SMSG_PONG), the second as itself -/
example : (match writeAll .wrath .server [(0x2E6, [1, 2, 3]), (0x2E6, [4])] with
    | some s => (match expectN .wrath .server [0x1DD, 0x2E6] (s ++ [9]) with
        | .ok (rs, rest) => decide (rs = [.other 0x2E6 5, .got [4]] ∧ rest = [9])
        | .error _ => false)
    | none => false) = true := by decide

end WowVerif.Frame

open WowVerif.Frame in
#print axioms expect_any
open WowVerif.Frame in
#print axioms expect_stream
