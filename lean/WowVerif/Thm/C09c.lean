/-
C09 — the computed MAXIMUM bounds every encoding whose strings and endless arrays respect the published per-type limits
(`WithinLimits`, a decidable predicate on program + value): `bounds_hi_sound`.  Together with `bounds_lo_sound` (Thm/C09b) the
model interval contains the length of every valid encoding, so a reader guard that contains the model interval rejects no valid
message because of its size.
-/
import WowVerif.Thm.C09b
import WowVerif.Model.SemLimits
namespace WowVerif.Sem

/-! ## static environment vs run-time environment -/

def EnvB (env : Env) (se : SEnv) : Prop := ∀ id m x, se.lookup id = some m → env.lookup id = some x → x ≤ m

theorem EnvB_nil : EnvB [] [] := by intro id m x h; simp at h

theorem foldl_max_ge (vals : List Nat) : ∀ (a : Nat), a ≤ vals.foldl max a ∧ ∀ n, n ∈ vals → n ≤ vals.foldl max a := by
  induction vals with
  | nil => intro a; simp
  | cons v vs ih =>
    intro a
    simp only [List.foldl_cons]
    have := ih (max a v)
    constructor
    · have h1 := this.1; omega
    · intro n hn
      simp only [List.mem_cons] at hn
      cases hn with
      | inl h => subst h; have h1 := this.1; omega
      | inr h => exact this.2 n h

theorem EnvB_cons (env : Env) (se : SEnv) (id n m : Nat) (h : EnvB env se) (hn : n ≤ m) : EnvB ((id, n) :: env) ((id, m) :: se) := by
  intro i m' x h1 h2
  simp only [List.lookup_cons] at h1 h2
  by_cases hi : i == id
  · simp only [hi] at h1 h2
    cases h1; cases h2; exact hn
  · simp only [hi] at h1 h2
    exact h i m' x h1 h2

theorem forget_lookup (se : SEnv) (ids : List Nat) (id m : Nat) (h : (se.forget ids).lookup id = some m) :
    ids.contains id = false ∧ se.lookup id = some m := by
  induction se with
  | nil => simp [SEnv.forget] at h
  | cons p se ih =>
    obtain ⟨k, v⟩ := p
    simp only [SEnv.forget, List.filter_cons] at h
    by_cases hk : ids.contains k = true
    · simp only [hk, Bool.not_true] at h
      have := ih h
      refine ⟨this.1, ?_⟩
      simp only [List.lookup_cons]
      by_cases hik : id == k
      · have : id = k := by simpa using hik
        subst this
        rw [hk] at this
        cases this.1
      · simp only [hik]; exact this.2
    · have hk' : ids.contains k = false := by simpa using hk
      simp only [hk', Bool.not_false, if_true] at h
      simp only [List.lookup_cons] at h ⊢
      by_cases hik : id == k
      · simp only [hik] at h ⊢
        have : id = k := by simpa using hik
        subst this
        exact ⟨hk', h⟩
      · simp only [hik] at h ⊢
        exact ih h

/-- binding a field keeps the two environments related -/
theorem leaf_env (l : Leaf) (v : Val) (b : Bytes) (env : Env) (se : SEnv) (id : Nat) (h : encLeaf l v = some b) (hB : EnvB env se) :
    EnvB (env.bind id v) (match leafMax l with | some m => (id, m) :: se | Option.none => se) := by
  cases l with
  | int k e =>
    cases v <;> simp only [encLeaf] at h <;> try (cases h)
    rename_i n
    simp only [encInt] at h
    split at h
    · rename_i hn
      simp only [leafMax, Env.bind]
      apply EnvB_cons _ _ _ _ _ hB
      have : 0 < 256 ^ k := Nat.pow_pos (by decide)
      omega
    · cases h
  | bool k =>
    cases v <;> simp only [encLeaf] at h <;> try (cases h)
    split at h
    · rename_i hn
      simp only [leafMax, Env.bind]
      exact EnvB_cons _ _ _ _ _ hB hn
    · cases h
  | enumT k e vals =>
    cases v <;> simp only [encLeaf] at h <;> try (cases h)
    rename_i n
    split at h
    · rename_i hn
      simp only [leafMax, Env.bind]
      apply EnvB_cons _ _ _ _ _ hB
      have hm : n ∈ vals := by simpa using hn
      exact (foldl_max_ge vals 0).2 n hm
    · cases h
  | lvl k =>
    cases v <;> simp only [encLeaf] at h <;> try (cases h)
    split at h
    · rename_i hn
      simp only [leafMax, Env.bind]
      apply EnvB_cons _ _ _ _ _ hB
      omega
    · cases h
  | dateTime =>
    cases v <;> simp only [encLeaf] at h <;> try (cases h)
    split at h
    · rename_i hn
      simp only [leafMax, Env.bind]
      apply EnvB_cons _ _ _ _ _ hB
      omega
    · cases h
  | cstring => cases v <;> simp only [encLeaf] at h <;> first | (cases h) | (simpa [leafMax, Env.bind] using hB)
  | sizedCString => cases v <;> simp only [encLeaf] at h <;> first | (cases h) | (simpa [leafMax, Env.bind] using hB)
  | string => cases v <;> simp only [encLeaf] at h <;> first | (cases h) | (simpa [leafMax, Env.bind] using hB)
  | packedGuid =>
    cases v <;> simp only [encLeaf] at h <;> try (cases h)
    split at h
    · rename_i hn
      simp only [leafMax, Env.bind]
      apply EnvB_cons _ _ _ _ _ hB
      omega
    · cases h
  | prim n =>
    have h' : encPrim n v = some b := by cases v <;> simpa [encLeaf] using h
    rw [encPrim_bind n v b env id h']
    simpa [leafMax] using hB

/-! ## frame: encoding a member binds only the member's own ids -/

theorem bind_lookup_ne (env : Env) (i id : Nat) (v : Val) (h : id ≠ i) : (env.bind i v).lookup id = env.lookup id := by
  cases v <;> simp only [Env.bind]
  simp only [List.lookup_cons]
  have : (id == i) = false := by simpa using h
  simp [this]

mutual
theorem frameM : ∀ (m : Member) (env : Env) (v : Val) (b : Bytes) (e' : Env), encMember m env v = some (b, e') →
    ∀ id, id ∉ idsM m → e'.lookup id = env.lookup id
  | .field i role t, env, v, b, e', h => by
      intro id hid
      simp only [encMember] at h
      split at h
      · cases ht : encTy t env v with
        | none => simp [ht] at h
        | some b1 =>
          simp [ht] at h
          obtain ⟨_, he⟩ := h
          subst he
          simp only [idsM, List.mem_singleton] at hid
          exact bind_lookup_ne env i id v hid
      · cases h
  | .ifs var bs, env, v, b, e', h => by
      intro id hid
      cases v with
      | tuple vs =>
        simp only [encMember] at h
        cases hv : env.get var with
        | none => simp [hv] at h
        | some x =>
          simp only [hv] at h
          simp only [idsM] at hid
          exact frameB bs x env vs b e' h id hid
      | nat _ => simp [encMember] at h
      | bytes _ => simp [encMember] at h
      | list _ => simp [encMember] at h
      | none => simp [encMember] at h
  | .endless i t, env, v, b, e', h => by
      intro id _
      cases v with
      | list vs =>
        simp only [encMember] at h
        cases hi : iterEnc1 (encTy t env) vs with
        | none => simp [hi] at h
        | some bb => simp [hi] at h; rw [h.2]
      | nat _ => simp [encMember] at h
      | bytes _ => simp [encMember] at h
      | tuple _ => simp [encMember] at h
      | none => simp [encMember] at h
  | .optional ms, env, v, b, e', h => by
      intro id hid
      cases v with
      | none => simp [encMember] at h; rw [h.2]
      | tuple vs =>
        simp only [encMember] at h
        cases hm : encMembers ms env vs with
        | none => simp [hm] at h
        | some p =>
          obtain ⟨bb, e1⟩ := p
          cases bb with
          | nil => simp [hm] at h
          | cons x bb =>
            simp [hm] at h
            obtain ⟨_, he⟩ := h
            subst he
            simp only [idsM] at hid
            exact frameMs ms env vs (x :: bb) e1 hm id hid
      | nat _ => simp [encMember] at h
      | bytes _ => simp [encMember] at h
      | list _ => simp [encMember] at h
theorem frameB : ∀ (bs : Branches) (x : Nat) (env : Env) (vs : List Val) (b : Bytes) (e' : Env), encBranches bs x env vs = some (b, e') →
    ∀ id, id ∉ idsB bs → e'.lookup id = env.lookup id
  | .els ms, x, env, vs, b, e', h => by
      intro id hid
      simp only [encBranches] at h
      simp only [idsB] at hid
      exact frameMs ms env vs b e' h id hid
  | .cons c ms bs, x, env, vs, b, e', h => by
      intro id hid
      simp only [encBranches] at h
      simp only [idsB, List.mem_append, not_or] at hid
      by_cases hc : c.holds x = true
      · simp only [hc, if_true] at h
        exact frameMs ms env vs b e' h id hid.1
      · simp only [hc] at h
        exact frameB bs x env vs b e' h id hid.2
theorem frameMs : ∀ (ms : Members) (env : Env) (vs : List Val) (b : Bytes) (e' : Env), encMembers ms env vs = some (b, e') →
    ∀ id, id ∉ idsMs ms → e'.lookup id = env.lookup id
  | .nil, env, vs, b, e', h => by
      intro id _
      cases vs with
      | nil => simp [encMembers] at h; rw [h.2]
      | cons _ _ => simp [encMembers] at h
  | .cons m ms, env, vs, b, e', h => by
      intro id hid
      simp only [idsMs, List.mem_append, not_or] at hid
      cases vs with
      | nil => cases m with
        | field id role t => cases role <;> simp [encMembers] at h
        | ifs _ _ => simp [encMembers] at h
        | endless _ _ => simp [encMembers] at h
        | optional _ => simp [encMembers] at h
      | cons v vs =>
        by_cases hss : isSelfSize m = true
        · cases m with
          | field i role t =>
            cases role with
            | selfSize =>
              simp only [encMembers] at h
              cases he2 : encMembers ms (env.bind i v) vs with
              | none => simp [he2] at h
              | some p2 =>
                obtain ⟨b2, env2⟩ := p2
                simp only [he2] at h
                cases v with
                | nat n =>
                  simp only at h
                  split at h
                  · cases he1 : encTy t env (.nat n) with
                    | none => simp [he1] at h
                    | some b1 =>
                      simp only [he1, Option.map_some, Option.some.injEq, Prod.mk.injEq] at h
                      obtain ⟨_, h2⟩ := h
                      subst h2
                      have := frameMs ms (env.bind i (.nat n)) vs b2 env2 he2 id hid.2
                      rw [this]
                      simp only [idsM, List.mem_singleton] at hid
                      exact bind_lookup_ne env i id _ hid.1
                  · cases h
                | bytes _ => simp at h
                | tuple _ => simp at h
                | list _ => simp at h
                | none => simp at h
            | plain => simp [isSelfSize] at hss
            | const c => simp [isSelfSize] at hss
          | ifs _ _ => simp [isSelfSize] at hss
          | endless _ _ => simp [isSelfSize] at hss
          | optional _ => simp [isSelfSize] at hss
        · have hss' : isSelfSize m = false := by simpa using hss
          rw [encMembers_cons_general m ms env v vs hss'] at h
          cases he1 : encMember m env v with
          | none => simp [he1] at h
          | some p1 =>
            obtain ⟨b1, env1⟩ := p1
            simp only [he1] at h
            cases he2 : encMembers ms env1 vs with
            | none => simp [he2] at h
            | some p2 =>
              obtain ⟨b2, env2⟩ := p2
              simp only [he2, Option.some.injEq, Prod.mk.injEq] at h
              obtain ⟨_, h2⟩ := h
              subst h2
              rw [frameMs ms env1 vs b2 env2 he2 id hid.2]
              exact frameM m env v b1 env1 he1 id hid.1
end

theorem EnvB_forget (env e' : Env) (se : SEnv) (ids : List Nat) (hB : EnvB env se)
    (hf : ∀ id, id ∉ ids → e'.lookup id = env.lookup id) : EnvB e' (se.forget ids) := by
  intro id m x h1 h2
  have := forget_lookup se ids id m h1
  have hid : id ∉ ids := by simpa using this.1
  rw [hf id hid] at h2
  exact hB id m x this.2 h2

/-! ## the maximum -/

theorem leaf_hi (L : Limits) (l : Leaf) (v : Val) (b : Bytes) (h : encLeaf l v = some b) (hok : leafOk L l v = true) :
    ∀ hi, (leafBounds L l).hi = some hi → b.length ≤ hi := by
  have hw : leafWithin L l v := by
    cases l <;> cases v <;> simp_all [leafOk, leafWithin]
  have hp : ∀ n, l ≠ .prim n := by
    intro n hn; subst hn; cases v <;> simp [leafOk] at hok
  exact (leaf_bounds_sound L l v b h hw hp).2

theorem iter_hi (f : Val → Option Bytes) (c : Nat) :
    ∀ (vs : List Val) (b : Bytes), (∀ v, v ∈ vs → ∀ bv, f v = some bv → bv.length ≤ c) → iterEnc f vs = some b → b.length ≤ vs.length * c := by
  intro vs
  induction vs with
  | nil => intro b _ hb; simp [iterEnc] at hb; subst hb; simp
  | cons v vs ih =>
    intro b hall hb
    simp only [iterEnc] at hb
    cases ha : f v with
    | none => simp [ha] at hb
    | some ba =>
      cases hc : iterEnc f vs with
      | none => simp [ha, hc] at hb
      | some bb =>
        simp [ha, hc] at hb
        subst hb
        have h1 := hall v (by simp) ba ha
        have h2 := ih bb (fun w hw => hall w (by simp [hw])) hc
        simp only [List.length_cons, List.length_append, Nat.add_mul, Nat.one_mul]
        omega

theorem optMulHi_spec (n hb : Option Nat) (h : Nat) (hh : optMulHi n hb = some h) :
    (n = some 0 ∧ h = 0) ∨ (∃ c, hb = some c ∧ ((c = 0 ∧ h = 0) ∨ ∃ a, n = some a ∧ h = a * c)) := by
  cases n with
  | none =>
    cases hb with
    | none => simp [optMulHi] at hh
    | some c =>
      cases c with
      | zero => simp [optMulHi] at hh; right; exact ⟨0, rfl, Or.inl ⟨rfl, hh.symm⟩⟩
      | succ c => simp [optMulHi] at hh
  | some a =>
    cases a with
    | zero => simp [optMulHi] at hh; left; exact ⟨rfl, hh.symm⟩
    | succ a =>
      cases hb with
      | none => simp [optMulHi] at hh
      | some c =>
        cases c with
        | zero => simp [optMulHi] at hh; right; exact ⟨0, rfl, Or.inl ⟨rfl, hh.symm⟩⟩
        | succ c => simp [optMulHi] at hh; right; exact ⟨c + 1, rfl, Or.inr ⟨a + 1, rfl, hh.symm⟩⟩

theorem field_env (L : Limits) (id : Nat) (role : Role) (t : Ty) (env : Env) (se : SEnv) (v : Val) (b : Bytes)
    (h : encTy t env v = some b) (hB : EnvB env se) : EnvB (env.bind id v) (boundsM L (.field id role t) se).2 := by
  cases t with
  | leaf l =>
    simp only [encTy] at h
    simp only [boundsM]
    exact leaf_env l v b env se id h hB
  | struct ms => cases v <;> simp [encTy] at h <;> simpa [boundsM, Env.bind] using hB
  | arrFixed n t => cases v <;> simp only [encTy] at h <;> first | (cases h) | (simpa [boundsM, Env.bind] using hB)
  | arrVar var t => cases v <;> simp only [encTy] at h <;> first | (cases h) | (simpa [boundsM, Env.bind] using hB)

mutual
theorem hiTy (L : Limits) : ∀ (t : Ty) (se : SEnv) (env : Env) (v : Val) (b : Bytes), encTy t env v = some b → okTy L t env v = true →
    EnvB env se → ∀ h, (boundsTy L t se).hi = some h → b.length ≤ h
  | .leaf l, se, env, v, b, he, hok, hB => by
      simp only [encTy] at he
      simp only [okTy] at hok
      simp only [boundsTy]
      exact leaf_hi L l v b he hok
  | .struct ms, se, env, v, b, he, hok, hB => by
      cases v with
      | tuple vs =>
        simp only [encTy] at he
        simp only [okTy] at hok
        cases hm : encMembers ms [] vs with
        | none => simp [hm] at he
        | some p =>
          obtain ⟨b', e'⟩ := p
          simp [hm] at he
          subst he
          simp only [boundsTy]
          exact hiMs L ms [] [] vs b' e' hm hok EnvB_nil
      | nat _ => simp [encTy] at he
      | bytes _ => simp [encTy] at he
      | list _ => simp [encTy] at he
      | none => simp [encTy] at he
  | .arrFixed n t, se, env, v, b, he, hok, hB => by
      cases v with
      | list vs =>
        simp only [encTy] at he
        simp only [okTy, List.all_eq_true] at hok
        intro h hh
        simp only [boundsTy] at hh
        split at he
        · rename_i hn
          rcases optMulHi_spec _ _ _ hh with ⟨h0, hz⟩ | ⟨c, hc, hcase⟩
          · simp only [Option.some.injEq] at h0
            have : vs = [] := by cases vs with | nil => rfl | cons _ _ => simp at hn; omega
            subst this
            simp [iterEnc] at he
            subst he; simp
          · have hall : ∀ w, w ∈ vs → ∀ bw, encTy t env w = some bw → bw.length ≤ c :=
              fun w hw bw hbw => hiTy L t se env w bw hbw (hok w hw) hB c hc
            have := iter_hi (encTy t env) c vs b hall he
            rcases hcase with ⟨hc0, hz⟩ | ⟨a, ha, hm⟩
            · subst hc0; subst hz; simpa using this
            · simp only [Option.some.injEq] at ha
              subst ha; subst hm; rw [hn] at this; exact this
        · cases he
      | nat _ => simp [encTy] at he
      | bytes _ => simp [encTy] at he
      | tuple _ => simp [encTy] at he
      | none => simp [encTy] at he
  | .arrVar var t, se, env, v, b, he, hok, hB => by
      cases v with
      | list vs =>
        simp only [encTy] at he
        simp only [okTy, List.all_eq_true] at hok
        intro h hh
        simp only [boundsTy] at hh
        split at he
        · rename_i hn
          rcases optMulHi_spec _ _ _ hh with ⟨h0, hz⟩ | ⟨c, hc, hcase⟩
          · have hle := hB var 0 vs.length h0 hn
            have : vs = [] := by cases vs with | nil => rfl | cons _ _ => simp at hle
            subst this
            simp [iterEnc] at he
            subst he; simp
          · have hall : ∀ w, w ∈ vs → ∀ bw, encTy t env w = some bw → bw.length ≤ c :=
              fun w hw bw hbw => hiTy L t se env w bw hbw (hok w hw) hB c hc
            have := iter_hi (encTy t env) c vs b hall he
            rcases hcase with ⟨hc0, hz⟩ | ⟨a, ha, hm⟩
            · subst hc0; subst hz; simpa using this
            · have hle := hB var a vs.length ha hn
              subst hm
              have : vs.length * c ≤ a * c := Nat.mul_le_mul_right c hle
              omega
        · cases he
      | nat _ => simp [encTy] at he
      | bytes _ => simp [encTy] at he
      | tuple _ => simp [encTy] at he
      | none => simp [encTy] at he
theorem hiM (L : Limits) : ∀ (m : Member) (se : SEnv) (env : Env) (v : Val) (b : Bytes) (e' : Env),
    encMember m env v = some (b, e') → okM L m env v = true → EnvB env se →
    (∀ h, (boundsM L m se).1.hi = some h → b.length ≤ h) ∧ EnvB e' (boundsM L m se).2
  | .field id role t, se, env, v, b, e', he, hok, hB => by
      simp only [encMember] at he
      simp only [okM] at hok
      split at he
      · cases ht : encTy t env v with
        | none => simp [ht] at he
        | some b1 =>
          simp [ht] at he
          obtain ⟨hb, hee⟩ := he
          subst hb; subst hee
          refine ⟨?_, field_env L id role t env se v b1 ht hB⟩
          simp only [boundsM]
          exact hiTy L t se env v b1 ht hok hB
      · cases he
  | .ifs var bs, se, env, v, b, e', he, hok, hB => by
      cases v with
      | tuple vs =>
        simp only [encMember] at he
        simp only [okM] at hok
        cases hv : env.get var with
        | none => simp [hv] at he
        | some x =>
          simp only [hv] at he hok
          simp only [boundsM]
          exact ⟨hiB L bs se x env vs b e' he hok hB, EnvB_forget env e' se _ hB (frameB bs x env vs b e' he)⟩
      | nat _ => simp [encMember] at he
      | bytes _ => simp [encMember] at he
      | list _ => simp [encMember] at he
      | none => simp [encMember] at he
  | .endless i t, se, env, v, b, e', he, hok, hB => by
      cases v with
      | list vs =>
        simp only [encMember] at he
        simp only [okM] at hok
        cases hi : iterEnc1 (encTy t env) vs with
        | none => simp [hi] at he
        | some bb =>
          simp [hi] at he hok
          obtain ⟨hb, hee⟩ := he
          subst hb; subst hee
          simp only [boundsM]
          refine ⟨?_, hB⟩
          intro h hh
          simp only [Option.some.injEq] at hh
          omega
      | nat _ => simp [encMember] at he
      | bytes _ => simp [encMember] at he
      | tuple _ => simp [encMember] at he
      | none => simp [encMember] at he
  | .optional ms, se, env, v, b, e', he, hok, hB => by
      cases v with
      | none =>
        simp [encMember] at he
        obtain ⟨hb, hee⟩ := he
        subst hb; subst hee
        simp only [boundsM]
        exact ⟨fun h _ => by simp, EnvB_forget env env se _ hB (fun _ _ => rfl)⟩
      | tuple vs =>
        simp only [encMember] at he
        simp only [okM] at hok
        cases hm : encMembers ms env vs with
        | none => simp [hm] at he
        | some p =>
          obtain ⟨bb, e1⟩ := p
          cases bb with
          | nil => simp [hm] at he
          | cons x bb =>
            simp [hm] at he
            obtain ⟨hb, hee⟩ := he
            subst hb; subst hee
            simp only [boundsM]
            exact ⟨hiMs L ms se env vs (x :: bb) e1 hm hok hB, EnvB_forget env e1 se _ hB (frameMs ms env vs (x :: bb) e1 hm)⟩
      | nat _ => simp [encMember] at he
      | bytes _ => simp [encMember] at he
      | list _ => simp [encMember] at he
theorem hiB (L : Limits) : ∀ (bs : Branches) (se : SEnv) (x : Nat) (env : Env) (vs : List Val) (b : Bytes) (e' : Env),
    encBranches bs x env vs = some (b, e') → okB L bs x env vs = true → EnvB env se →
    ∀ h, (boundsB L bs se).hi = some h → b.length ≤ h
  | .els ms, se, x, env, vs, b, e', he, hok, hB => by
      simp only [encBranches] at he
      simp only [okB] at hok
      simp only [boundsB]
      exact hiMs L ms se env vs b e' he hok hB
  | .cons c ms bs, se, x, env, vs, b, e', he, hok, hB => by
      simp only [encBranches] at he
      simp only [okB] at hok
      intro h hh
      simp only [boundsB, Bounds.join] at hh
      cases h1 : (boundsMs L ms se).hi with
      | none => simp [h1, optMaxHi] at hh
      | some a1 =>
        cases h2 : (boundsB L bs se).hi with
        | none => simp [h1, h2, optMaxHi] at hh
        | some a2 =>
          simp [h1, h2, optMaxHi] at hh
          by_cases hc : c.holds x = true
          · simp only [hc, if_true] at he hok
            have := hiMs L ms se env vs b e' he hok hB a1 h1
            omega
          · simp only [hc] at he hok
            have := hiB L bs se x env vs b e' he hok hB a2 h2
            omega
theorem hiMs (L : Limits) : ∀ (ms : Members) (se : SEnv) (env : Env) (vs : List Val) (b : Bytes) (e' : Env),
    encMembers ms env vs = some (b, e') → okMs L ms env vs = true → EnvB env se →
    ∀ h, (boundsMs L ms se).hi = some h → b.length ≤ h
  | .nil, se, env, vs, b, e', he, hok, hB => by
      cases vs with
      | nil => simp [encMembers] at he; intro h _; rw [he.1]; simp
      | cons _ _ => simp [encMembers] at he
  | .cons m ms, se, env, vs, b, e', he, hok, hB => by
      cases vs with
      | nil => cases m with
        | field id role t => cases role <;> simp [encMembers] at he
        | ifs _ _ => simp [encMembers] at he
        | endless _ _ => simp [encMembers] at he
        | optional _ => simp [encMembers] at he
      | cons v vs =>
        intro h hh
        simp only [boundsMs, Bounds.add] at hh
        cases h1 : (boundsM L m se).1.hi with
        | none => simp [h1, optAddHi] at hh
        | some a1 =>
          cases h2 : (boundsMs L ms (boundsM L m se).2).hi with
          | none => simp [h1, h2, optAddHi] at hh
          | some a2 =>
            simp [h1, h2, optAddHi] at hh
            simp only [okMs, Bool.and_eq_true] at hok
            obtain ⟨hokm, hokr⟩ := hok
            by_cases hss : isSelfSize m = true
            · cases m with
              | field id role t =>
                cases role with
                | selfSize =>
                  simp only [encMembers] at he
                  cases he2 : encMembers ms (env.bind id v) vs with
                  | none => simp [he2] at he
                  | some p2 =>
                    obtain ⟨b2, env2⟩ := p2
                    simp only [he2] at he
                    cases v with
                    | nat n =>
                      simp only at he
                      split at he
                      · cases he1 : encTy t env (.nat n) with
                        | none => simp [he1] at he
                        | some b1 =>
                          simp only [he1, Option.map_some, Option.some.injEq, Prod.mk.injEq] at he
                          obtain ⟨hb, _⟩ := he
                          subst hb
                          have hem : encMember (.field id .selfSize t) env (.nat n) = some (b1, env.bind id (.nat n)) := by
                            simp [encMember, roleOk, he1]
                          rw [hem] at hokr
                          have hm := hiM L (.field id .selfSize t) se env (.nat n) b1 _ hem hokm hB
                          have w1 := hm.1 a1 h1
                          have w2 := hiMs L ms _ (env.bind id (.nat n)) vs b2 env2 he2 hokr hm.2 a2 h2
                          simp only [List.length_append]
                          omega
                      · cases he
                    | bytes _ => simp at he
                    | tuple _ => simp at he
                    | list _ => simp at he
                    | none => simp at he
                | plain => simp [isSelfSize] at hss
                | const c => simp [isSelfSize] at hss
              | ifs _ _ => simp [isSelfSize] at hss
              | endless _ _ => simp [isSelfSize] at hss
              | optional _ => simp [isSelfSize] at hss
            · have hss' : isSelfSize m = false := by simpa using hss
              rw [encMembers_cons_general m ms env v vs hss'] at he
              cases he1 : encMember m env v with
              | none => simp [he1] at he
              | some p1 =>
                obtain ⟨b1, env1⟩ := p1
                simp only [he1] at he hokr
                cases he2 : encMembers ms env1 vs with
                | none => simp [he2] at he
                | some p2 =>
                  obtain ⟨b2, env2⟩ := p2
                  simp only [he2, Option.some.injEq, Prod.mk.injEq] at he
                  obtain ⟨hb, _⟩ := he
                  subst hb
                  have hm := hiM L m se env v b1 env1 he1 hokm hB
                  have w1 := hm.1 a1 h1
                  have w2 := hiMs L ms _ env1 vs b2 env2 he2 hokr hm.2 a2 h2
                  simp only [List.length_append]
                  omega
end

/-- **the computed maximum size bounds every encoding within the published limits** of every closed program -/
theorem bounds_hi_sound (L : Limits) (c : Members) (vs : List Val) (b : Bytes) (h : encode c vs = some b)
    (hw : WithinLimits L c vs = true) : ∀ hi, (bounds L c).hi = some hi → b.length ≤ hi := by
  unfold encode at h
  cases he : encMembers c [] vs with
  | none => simp [he] at h
  | some p =>
    obtain ⟨b', e'⟩ := p
    simp [he] at h
    subst h
    exact hiMs L c [] [] vs b' e' he hw EnvB_nil

/-- both sides: the model interval contains the length of every encoding within the limits -/
theorem bounds_sound (L : Limits) (c : Members) (vs : List Val) (b : Bytes) (h : encode c vs = some b)
    (hw : WithinLimits L c vs = true) :
    (bounds L c).lo ≤ b.length ∧ ∀ hi, (bounds L c).hi = some hi → b.length ≤ hi :=
  ⟨bounds_lo_sound L c vs b h, bounds_hi_sound L c vs b h hw⟩

/-- non-vacuity: a program with a count, a counted array of structs holding a CString, a conditional and an endless tail; a value
within the limits that encodes (so the hypotheses of `bounds_sound` are satisfiable, and its conclusion is checked on it) -/
def exProg : Members :=
  .cons (.field 0 .plain (.leaf (.int 1 .le)))
  (.cons (.field 1 .plain (.arrVar 0 (.struct (.cons (.field 2 .plain (.leaf .cstring)) (.cons (.field 3 .plain (.leaf (.int 2 .le))) .nil)))))
  (.cons (.ifs 0 (.cons (.eq [2]) (.cons (.field 4 .plain (.leaf (.int 4 .le))) .nil) (.els .nil)))
  (.cons (.endless 5 (.leaf (.int 1 .le))) .nil)))
def exVal : List Val :=
  [.nat 2, .list [.tuple [.bytes [104, 105], .nat 7], .tuple [.bytes [], .nat 9]], .tuple [.nat 1], .list [.nat 1, .nat 2, .nat 3]]

example : WithinLimits {} exProg exVal = true := by decide
example : (encode exProg exVal).map List.length = some 16 := by decide
example : (bounds {} exProg).lo = 1 ∧ (bounds {} exProg).hi = some (1 + 255 * (256 + 2) + 4 + 65535) := by decide

end WowVerif.Sem

open WowVerif.Sem in
#print axioms bounds_hi_sound
open WowVerif.Sem in
#print axioms bounds_sound
