/-
C11 — generated enum types mirror their wowm definition for every integer.
`enumOk r d = true` (evaluated on every generated enum re-extracted from /repo) implies, for all integers:
-/
import WowVerif.Model.Enum
namespace WowVerif.Enum

private theorem lookup_swap (l : List (Name × Int)) (n : Int) :
    (l.map (fun p => (p.2, p.1))).lookup n = (l.find? (fun p => p.2 == n)).map (·.1) := by
  induction l with
  | nil => rfl
  | cons p l ih =>
    simp only [List.map_cons, List.lookup_cons, List.find?_cons]
    by_cases h : p.2 = n
    · simp [h]
    · have h' : (n == p.2) = false := by simp; exact fun e => h e.symm
      have h'' : (p.2 == n) = false := by simp [h]
      simp [h', h'', ih]

private theorem lookup_of_mem (l : List (Name × Int)) (x : Name) (v : Int)
    (hd : distinct (l.map (·.1)) = true) (hm : (x, v) ∈ l) : l.lookup x = some v := by
  induction l with
  | nil => cases hm
  | cons p l ih =>
    obtain ⟨k, b⟩ := p
    simp only [List.map_cons, distinct, Bool.and_eq_true, Bool.not_eq_true', List.contains_eq_mem,
      decide_eq_false_iff_not] at hd
    simp only [List.lookup_cons]
    rcases List.mem_cons.mp hm with h | h
    · injection h with h1 h2; subst h1; subst h2; simp
    · have hne : (x == k) = false := by
        simp only [beq_eq_false_iff_ne, ne_eq]
        intro e
        apply hd.1
        rw [← e]
        exact List.mem_map.mpr ⟨(x, v), h, rfl⟩
      simp [hne, ih hd.2 h]

private theorem find_of_mem (l : List (Name × Int)) (x : Name) (v : Int)
    (hd : distinct (l.map (·.2)) = true) (hm : (x, v) ∈ l) : l.find? (fun p => p.2 == v) = some (x, v) := by
  induction l with
  | nil => cases hm
  | cons p l ih =>
    simp only [List.map_cons, distinct, Bool.and_eq_true, Bool.not_eq_true', List.contains_eq_mem,
      decide_eq_false_iff_not] at hd
    simp only [List.find?_cons]
    rcases List.mem_cons.mp hm with h | h
    · subst h; simp
    · have hne : (p.2 == v) = false := by
        simp only [beq_eq_false_iff_ne, ne_eq]
        intro e
        apply hd.1
        rw [e]
        exact List.mem_map.mpr ⟨(x, v), h, rfl⟩
      simp [hne, ih hd.2 h]

private theorem enumOk_parts {r : RustEnum} {d : WowmEnum} (h : enumOk r d = true) :
    r.base = d.base ∧ r.nameConst = d.name ∧ r.wildcardReportsValue = true ∧
    r.variants = d.enumerators.map (·.1) ∧ r.declared = d.enumerators.map (·.1) ∧
    distinct (d.enumerators.map (·.1)) = true ∧ distinct (d.enumerators.map (·.2)) = true ∧
    r.asInt = d.enumerators ∧ r.fromInt = d.enumerators.map (fun p => (p.2, p.1)) ∧
    (∀ p ∈ r.tryFrom, convOk r.base p.1 p.2 = true) := by
  simp only [enumOk, Bool.and_eq_true, beq_iff_eq, List.all_eq_true] at h
  obtain ⟨⟨⟨⟨⟨⟨⟨⟨⟨⟨⟨h1, h2⟩, h3⟩, h4⟩, h5⟩, h6⟩, h7⟩, _⟩, h9⟩, h10⟩, h11⟩, _⟩ := h
  exact ⟨h1, h2, h3, h4, h5, h6, h7, h9, h10, h11⟩

/-- **from_int succeeds exactly for the declared values, names the right enumerator, and reports the offending value otherwise** — every integer. -/
theorem fromInt_correct (r : RustEnum) (d : WowmEnum) (h : enumOk r d = true) (n : Int) :
    r.fromIntF n = d.lookup n := by
  obtain ⟨_, _, _, _, _, _, _, _, h10, _⟩ := enumOk_parts h
  unfold RustEnum.fromIntF WowmEnum.lookup
  rw [h10, lookup_swap]
  cases d.enumerators.find? (fun p => p.2 == n) <;> rfl

/-- **converting back yields the same integer; and every enumerator is reachable** -/
theorem roundtrip (r : RustEnum) (d : WowmEnum) (h : enumOk r d = true) (x : Name) (v : Int)
    (hm : (x, v) ∈ d.enumerators) : r.asIntF x = some v ∧ r.fromIntF v = .ok x := by
  obtain ⟨_, _, _, _, _, h6, h7, h9, _, _⟩ := enumOk_parts h
  refine ⟨?_, ?_⟩
  · unfold RustEnum.asIntF; rw [h9]; exact lookup_of_mem _ _ _ h6 hm
  · rw [fromInt_correct r d h]; unfold WowmEnum.lookup; rw [find_of_mem _ _ _ h7 hm]

/-- **the variant list contains each enumerator exactly once in declaration order** -/
theorem variants_correct (r : RustEnum) (d : WowmEnum) (h : enumOk r d = true) :
    r.variants = d.enumerators.map (·.1) ∧ distinct r.variants = true := by
  obtain ⟨_, _, _, h4, _, h6, _, _, _, _⟩ := enumOk_parts h
  exact ⟨h4, h4 ▸ h6⟩

private theorem pow_mono (a b : Nat) (h : a ≤ b) : (2 ^ a : Int) ≤ 2 ^ b := by
  have : (2 : Nat) ^ a ≤ 2 ^ b := Nat.pow_le_pow_right (by decide) h
  exact_mod_cast this

private theorem widen_inRange (s b : IntTy) (hs : s.signed = b.signed) (hb : s.bits < b.bits) (n : Int)
    (hn : s.inRange n = true) : b.inRange n = true := by
  unfold IntTy.inRange at *
  rw [← hs]
  cases hsg : s.signed <;> simp only [hsg, Bool.false_eq_true, if_false, if_true, Bool.and_eq_true, decide_eq_true_eq] at hn ⊢
  · exact ⟨hn.1, Int.lt_of_lt_of_le hn.2 (pow_mono _ _ (by omega))⟩
  · have := pow_mono (s.bits - 1) (b.bits - 1) (by omega)
    exact ⟨by omega, by omega⟩

/-- **TryFrom from every source integer type is by numeric value; a same-width integer of the other signedness is
reinterpreted bit for bit** — for every value of the source type. -/
theorem tryFrom_correct (r : RustEnum) (d : WowmEnum) (h : enumOk r d = true) (src : IntTy) (c : Conv)
    (hm : (src, c) ∈ r.tryFrom) (n : Int) (hn : src.inRange n = true) :
    r.tryFromF src c n = some (d.specTryFrom src n) := by
  obtain ⟨h1, _, _, _, _, _, _, _, _, h11⟩ := enumOk_parts h
  have hc := h11 _ hm
  have hf := fromInt_correct r d h
  unfold RustEnum.tryFromF WowmEnum.specTryFrom
  rw [← h1]
  cases c with
  | direct =>
    simp only [convOk, beq_iff_eq] at hc
    subst hc
    simp [hf, hn]
  | into =>
    simp only [convOk, Bool.and_eq_true, beq_iff_eq, decide_eq_true_eq] at hc
    have := widen_inRange src r.base hc.1 hc.2 n hn
    have hne : ¬ (src.bits = r.base.bits ∧ src.signed ≠ r.base.signed) := by omega
    simp [hc.1, hc.2, hf, this, hne]
  | reinterpret =>
    simp only [convOk, Bool.and_eq_true, beq_iff_eq, bne_iff_ne, ne_eq] at hc
    simp [hc.1, hc.2, hf]
  | checked =>
    simp only [convOk, Bool.not_eq_true', Bool.and_eq_false_iff, beq_eq_false_iff_ne, ne_eq, bne_eq_false_iff_eq] at hc
    have hne : ¬ (src.bits = r.base.bits ∧ src.signed ≠ r.base.signed) := by
      rcases hc with hc | hc
      · exact fun e => hc e.1
      · exact fun e => e.2 hc
    simp only [hne, if_false]
    cases r.base.inRange n <;> simp [hf]
  | unknown => simp [convOk] at hc

/-! ### non-vacuity -/
def exR : RustEnum where
  base := ⟨8, false⟩
  nameConst := 100
  variants := [0, 1]
  declared := [0, 1]
  asInt := [(0, 0), (1, 1)]
  fromInt := [(0, 0), (1, 1)]
  wildcardReportsValue := true
  tryFrom := [(⟨8, false⟩, .direct), (⟨16, false⟩, .checked), (⟨8, true⟩, .reinterpret), (⟨64, true⟩, .checked)]
def exD : WowmEnum where
  name := 100
  base := ⟨8, false⟩
  enumerators := [(0, 0), (1, 1)]
example : enumOk exR exD = true := by decide
example : exD.specTryFrom ⟨8, true⟩ (-1) = .error 255 := by rfl
example : exD.specTryFrom ⟨16, true⟩ (-1) = .error (-1) := by rfl
example : exD.specTryFrom ⟨32, false⟩ 257 = .error 257 := by rfl
/-- a narrowing `as` cast (aliasing modulo 2^8) is not one of the accepted shapes -/
example : enumOk { exR with tryFrom := [(⟨16, false⟩, .unknown)] } exD = false := by decide

end WowVerif.Enum

open WowVerif.Enum in
#print axioms fromInt_correct
open WowVerif.Enum in
#print axioms roundtrip
open WowVerif.Enum in
#print axioms variants_correct
open WowVerif.Enum in
#print axioms tryFrom_correct
