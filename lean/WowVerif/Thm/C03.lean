/-
C03 — decoding is total (specification side).  The specification decoder is a total structural recursion (accepted by
Lean without fuel except for endless arrays, whose loop is bounded by the input length): it returns a value or an error
for EVERY byte string (`decode_total`).  It never "invents" input: the rest is never longer than the input
(`decTy_no_growth`, `decMembers_no_growth`), an endless array never has more elements than there are input bytes
(`iterDecAll_count`), and a counted array of elements that occupy at least one byte never succeeds with a count larger
than the remaining input (`iterDec_count`) — i.e. a decoder needs no memory out of proportion to the frame.
The implementation's behaviour on hostile input is established by fault enumeration (checks/c03.py).
-/
import WowVerif.Model.Sem
namespace WowVerif.Sem

theorem decode_total (c : Members) (bs : Bytes) : (∃ vs, decode c bs = .ok vs) ∨ (∃ e, decode c bs = .error e) := by
  cases h : decode c bs with
  | ok vs => exact Or.inl ⟨vs, rfl⟩
  | error e => exact Or.inr ⟨e, rfl⟩

private theorem decInt_le (k : Nat) (e : Endian) (bs r : Bytes) (n : Nat) (h : decInt k e bs = .ok (n, r)) : r.length ≤ bs.length := by
  unfold decInt at h
  split at h
  · simp only [Except.ok.injEq, Prod.mk.injEq] at h; rw [← h.2]; simp
  · cases h

private theorem splitAtZero_le (bs s r : Bytes) (h : splitAtZero bs = some (s, r)) : r.length < bs.length := by
  induction bs generalizing s r with
  | nil => simp [splitAtZero] at h
  | cons x bs ih =>
    simp only [splitAtZero] at h
    split at h
    · simp only [Option.some.injEq, Prod.mk.injEq] at h; rw [← h.2]; simp
    · cases hs : splitAtZero bs with
      | none => simp [hs] at h
      | some p =>
        obtain ⟨s', r'⟩ := p
        simp only [hs, Option.map_some, Option.some.injEq, Prod.mk.injEq] at h
        have := ih s' r' hs
        rw [← h.2]; simp; omega

private theorem unpack_le (m : List Bool) (bs g r : Bytes) (h : unpackBytes m bs = .ok (g, r)) : r.length ≤ bs.length := by
  induction m generalizing bs g r with
  | nil => simp only [unpackBytes, Except.ok.injEq, Prod.mk.injEq] at h; rw [h.2]; exact Nat.le_refl _
  | cons b m ih =>
    cases b with
    | false =>
      simp only [unpackBytes] at h
      cases hu : unpackBytes m bs with
      | error e => simp [hu] at h
      | ok p =>
        obtain ⟨g', r'⟩ := p
        simp only [hu, Except.ok.injEq, Prod.mk.injEq] at h
        rw [← h.2]; exact ih bs g' r' hu
    | true =>
      cases bs with
      | nil => simp [unpackBytes] at h
      | cons x bs =>
        simp only [unpackBytes] at h
        cases hu : unpackBytes m bs with
        | error e => simp [hu] at h
        | ok p =>
          obtain ⟨g', r'⟩ := p
          simp only [hu, Except.ok.injEq, Prod.mk.injEq] at h
          have := ih bs g' r' hu
          rw [← h.2]; simp; omega

/-! ### built-in types never produce input -/
private theorem iterDec_le (f : Bytes → Except Err (Val × Bytes)) (hf : ∀ bs v r, f bs = .ok (v, r) → r.length ≤ bs.length) :
    ∀ (k : Nat) (bs : Bytes) (vs : List Val) (r : Bytes), iterDec f k bs = .ok (vs, r) → r.length ≤ bs.length
  | 0, bs, vs, r, h => by simp [iterDec] at h; rw [h.2]; exact Nat.le_refl _
  | k + 1, bs, vs, r, h => by
    simp only [iterDec] at h
    cases h1 : f bs with
    | error x => simp [h1] at h
    | ok p =>
      obtain ⟨v, r1⟩ := p
      cases h2 : iterDec f k r1 with
      | error x => simp [h1, h2] at h
      | ok q =>
        obtain ⟨vs', r2⟩ := q
        simp only [h1, h2, Except.ok.injEq, Prod.mk.injEq] at h
        have a := hf bs v r1 h1
        have b := iterDec_le f hf k r1 vs' r2 h2
        rw [← h.2]; omega

private theorem decB_le (l : BLeaf) (bs r : Bytes) (n : Nat) (h : decB l bs = .ok (n, r)) : r.length ≤ bs.length := by
  cases l with
  | u8 => exact decInt_le 1 .le bs r n h
  | u16 => exact decInt_le 2 .le bs r n h
  | u32 => exact decInt_le 4 .le bs r n h
  | pg =>
    simp only [decB] at h
    cases bs with
    | nil => simp at h
    | cons m rr =>
      simp only at h
      cases hu : unpackBytes (natToBits 8 m.toNat) rr with
      | error e => simp [hu] at h
      | ok p =>
        obtain ⟨g, r'⟩ := p
        simp only [hu, Except.ok.injEq, Prod.mk.injEq] at h
        have := unpack_le _ rr g r' hu
        rw [← h.2]; simp; omega
  | bool32 =>
    simp only [decB] at h
    cases hd : decInt 4 .le bs with
    | error x => simp [hd] at h
    | ok p => obtain ⟨m, r'⟩ := p; simp only [hd, Except.ok.injEq, Prod.mk.injEq] at h; rw [← h.2]; exact decInt_le 4 .le bs r' m hd
  | dt =>
    simp only [decB] at h
    cases hd : decInt 4 .le bs with
    | error x => simp [hd] at h
    | ok p =>
      obtain ⟨m, r'⟩ := p
      simp only [hd] at h
      split at h
      · simp only [Except.ok.injEq, Prod.mk.injEq] at h; rw [← h.2]; exact decInt_le 4 .le bs r' m hd
      · cases h

private theorem decBs_le : ∀ (ls : List BLeaf) (bs : Bytes) (vs : List Val) (r : Bytes), decBs ls bs = .ok (vs, r) → r.length ≤ bs.length
  | [], bs, vs, r, h => by simp [decBs] at h; rw [h.2]; exact Nat.le_refl _
  | l :: ls, bs, vs, r, h => by
    simp only [decBs] at h
    cases h1 : decB l bs with
    | error x => simp [h1] at h
    | ok p =>
      obtain ⟨n, r1⟩ := p
      cases h2 : decBs ls r1 with
      | error x => simp [h1, h2] at h
      | ok q =>
        obtain ⟨vs', r2⟩ := q
        simp only [h1, h2, Except.ok.injEq, Prod.mk.injEq] at h
        have a := decB_le l bs r1 n h1
        have b := decBs_le ls r1 vs' r2 h2
        rw [← h.2]; omega

private theorem decSent_le (ls : List BLeaf) : ∀ (fuel : Nat) (bs : Bytes) (vs : List Val) (r : Bytes),
    decSent ls fuel bs = .ok (vs, r) → r.length ≤ bs.length
  | 0, bs, vs, r, h => by simp [decSent] at h
  | fuel + 1, bs, vs, r, h => by
    simp only [decSent] at h
    cases h0 : decInt 4 .le bs with
    | error x => simp [h0] at h
    | ok p =>
      obtain ⟨id, r0⟩ := p
      have a0 := decInt_le 4 .le bs r0 id h0
      simp only [h0] at h
      split at h
      · simp only [Except.ok.injEq, Prod.mk.injEq] at h; rw [← h.2]; exact a0
      · cases h1 : decBs ls r0 with
        | error x => simp [h1] at h
        | ok q =>
          obtain ⟨fs, r1⟩ := q
          cases h2 : decSent ls fuel r1 with
          | error x => simp [h1, h2] at h
          | ok q2 =>
            obtain ⟨vs', r2⟩ := q2
            simp only [h1, h2, Except.ok.injEq, Prod.mk.injEq] at h
            have a := decBs_le ls r0 fs r1 h1
            have b := decSent_le ls fuel r1 vs' r2 h2
            rw [← h.2]; omega

private theorem decTuple_le (ls : List BLeaf) (bs : Bytes) (v : Val) (r : Bytes) (h : decTuple ls bs = .ok (v, r)) : r.length ≤ bs.length := by
  simp only [decTuple] at h
  cases h1 : decBs ls bs with
  | error x => simp [h1] at h
  | ok q =>
    obtain ⟨fs, r1⟩ := q
    simp only [h1, Except.ok.injEq, Prod.mk.injEq] at h
    rw [← h.2]; exact decBs_le ls bs fs r1 h1

private theorem decSplines_le (bs : Bytes) (vs : List Val) (r : Bytes) (h : decSplines bs = .ok (vs, r)) : r.length ≤ bs.length := by
  simp only [decSplines] at h
  cases h0 : decInt 4 .le bs with
  | error x => simp [h0] at h
  | ok p =>
    obtain ⟨n, r0⟩ := p
    have a0 := decInt_le 4 .le bs r0 n h0
    simp only [h0] at h
    cases n with
    | zero => simp only [Except.ok.injEq, Prod.mk.injEq] at h; rw [← h.2]; exact a0
    | succ k =>
      simp only at h
      cases h1 : decTuple [.u32, .u32, .u32] r0 with
      | error x => simp [h1] at h
      | ok q =>
        obtain ⟨pv, r1⟩ := q
        cases h2 : iterDec (decTuple [.u32]) k r1 with
        | error x => simp [h1, h2] at h
        | ok q2 =>
          obtain ⟨ps, r2⟩ := q2
          simp only [h1, h2, Except.ok.injEq, Prod.mk.injEq] at h
          have a := decTuple_le _ r0 pv r1 h1
          have b := iterDec_le (decTuple [.u32]) (fun bs v r hh => decTuple_le _ bs v r hh) k r1 ps r2 h2
          rw [← h.2]; omega

private theorem decU32V_le (bs : Bytes) (v : Val) (r : Bytes) (h : decU32V bs = .ok (v, r)) : r.length ≤ bs.length := by
  simp only [decU32V] at h
  cases hd : decInt 4 .le bs with
  | error x => simp [hd] at h
  | ok p => obtain ⟨m, r'⟩ := p; simp only [hd, Except.ok.injEq, Prod.mk.injEq] at h; rw [← h.2]; exact decInt_le 4 .le bs r' m hd

private theorem decUpdateMask_le (bs : Bytes) (v : Val) (r : Bytes) (h : decUpdateMask bs = .ok (v, r)) : r.length ≤ bs.length := by
  simp only [decUpdateMask] at h
  cases h0 : decInt 1 .le bs with
  | error x => simp [h0] at h
  | ok p =>
    obtain ⟨n, r0⟩ := p
    have a0 := decInt_le 1 .le bs r0 n h0
    cases h1 : iterDec decU32V n r0 with
    | error x => simp [h0, h1] at h
    | ok q =>
      obtain ⟨masks, r1⟩ := q
      cases h2 : iterDec decU32V (umCount masks) r1 with
      | error x => simp [h0, h1, h2] at h
      | ok q2 =>
        obtain ⟨values, r2⟩ := q2
        simp only [h0, h1, h2] at h
        split at h
        · simp only [Except.ok.injEq, Prod.mk.injEq] at h
          have a := iterDec_le decU32V decU32V_le n r0 masks r1 h1
          have b := iterDec_le decU32V decU32V_le (umCount masks) r1 values r2 h2
          rw [← h.2]; omega
        · cases h

private theorem decSlots_le (dec : Bytes → Except Err (Val × Bytes)) (hf : ∀ bs v r, dec bs = .ok (v, r) → r.length ≤ bs.length) :
    ∀ (m : List Bool) (bs : Bytes) (vs : List Val) (r : Bytes), decSlots dec m bs = .ok (vs, r) → r.length ≤ bs.length
  | [], bs, vs, r, h => by simp [decSlots] at h; rw [h.2]; exact Nat.le_refl _
  | false :: m, bs, vs, r, h => by
    simp only [decSlots] at h
    cases h1 : decSlots dec m bs with
    | error x => simp [h1] at h
    | ok q =>
      obtain ⟨vs', r1⟩ := q
      simp only [h1, Except.ok.injEq, Prod.mk.injEq] at h
      rw [← h.2]; exact decSlots_le dec hf m bs vs' r1 h1
  | true :: m, bs, vs, r, h => by
    simp only [decSlots] at h
    cases h0 : dec bs with
    | error x => simp [h0] at h
    | ok p =>
      obtain ⟨e, r0⟩ := p
      cases h1 : decSlots dec m r0 with
      | error x => simp [h0, h1] at h
      | ok q =>
        obtain ⟨vs', r1⟩ := q
        simp only [h0, h1, Except.ok.injEq, Prod.mk.injEq] at h
        have a := hf bs e r0 h0
        have b := decSlots_le dec hf m r0 vs' r1 h1
        rw [← h.2]; omega

private theorem decMask_le (w : Nat) (dec : Bytes → Except Err (Val × Bytes)) (hf : ∀ bs v r, dec bs = .ok (v, r) → r.length ≤ bs.length)
    (bs : Bytes) (v : Val) (r : Bytes) (h : decMask w dec bs = .ok (v, r)) : r.length ≤ bs.length := by
  simp only [decMask] at h
  cases h0 : decInt w .le bs with
  | error x => simp [h0] at h
  | ok p =>
    obtain ⟨pat, r0⟩ := p
    have a0 := decInt_le w .le bs r0 pat h0
    cases h1 : decSlots dec (natToBits (8 * w) pat) r0 with
    | error x => simp [h0, h1] at h
    | ok q =>
      obtain ⟨vs, r1⟩ := q
      simp only [h0, h1, Except.ok.injEq, Prod.mk.injEq] at h
      have b := decSlots_le dec hf _ r0 vs r1 h1
      rw [← h.2]; omega

private theorem decGear_le (bs : Bytes) (v : Val) (r : Bytes) (h : decGear bs = .ok (v, r)) : r.length ≤ bs.length := by
  simp only [decGear] at h
  cases h0 : decB .u32 bs with
  | error x => simp [h0] at h
  | ok p =>
    obtain ⟨item, r0⟩ := p
    cases h1 : decMask 2 (decTuple [.u16]) r0 with
    | error x => simp [h0, h1] at h
    | ok q =>
      obtain ⟨em, r1⟩ := q
      cases h2 : decBs gearTail r1 with
      | error x => simp [h0, h1, h2] at h
      | ok q2 =>
        obtain ⟨fs, r2⟩ := q2
        simp only [h0, h1, h2, Except.ok.injEq, Prod.mk.injEq] at h
        have a := decB_le .u32 bs r0 item h0
        have b := decMask_le 2 (decTuple [.u16]) (fun bs v r hh => decTuple_le _ bs v r hh) r0 em r1 h1
        have c := decBs_le gearTail r1 fs r2 h2
        rw [← h.2]; omega

private theorem decNamedGuid_le (bs : Bytes) (v : Val) (r : Bytes) (h : decNamedGuid bs = .ok (v, r)) : r.length ≤ bs.length := by
  simp only [decNamedGuid] at h
  cases h0 : decInt 8 .le bs with
  | error x => simp [h0] at h
  | ok p =>
    obtain ⟨g, r0⟩ := p
    have a0 := decInt_le 8 .le bs r0 g h0
    simp only [h0] at h
    split at h
    · simp only [Except.ok.injEq, Prod.mk.injEq] at h; rw [← h.2]; exact a0
    · cases hs : splitAtZero r0 with
      | none => simp [hs] at h
      | some q =>
        obtain ⟨s, r1⟩ := q
        simp only [hs, Except.ok.injEq, Prod.mk.injEq] at h
        have := splitAtZero_le r0 s r1 hs
        rw [← h.2]; omega

private theorem decVirp_le (bs : Bytes) (v : Val) (r : Bytes) (h : decVirp bs = .ok (v, r)) : r.length ≤ bs.length := by
  simp only [decVirp] at h
  cases h0 : decInt 4 .le bs with
  | error x => simp [h0] at h
  | ok p =>
    obtain ⟨g, r0⟩ := p
    have a0 := decInt_le 4 .le bs r0 g h0
    simp only [h0] at h
    split at h
    · simp only [Except.ok.injEq, Prod.mk.injEq] at h; rw [← h.2]; exact a0
    · cases h1 : decInt 4 .le r0 with
      | error x => simp [h1] at h
      | ok q =>
        obtain ⟨sf, r1⟩ := q
        simp only [h1, Except.ok.injEq, Prod.mk.injEq] at h
        have := decInt_le 4 .le r0 r1 sf h1
        rw [← h.2]; omega

theorem decPrim_no_growth (name : String) (bs r : Bytes) (v : Val) (h : decPrim name bs = .ok (v, r)) : r.length ≤ bs.length := by
  unfold decPrim at h
  cases hk : primKind name with
  | achDone =>
    simp only [hk] at h
    cases h1 : decSent achDoneFields (bs.length + 1) bs with
    | error x => simp [h1] at h
    | ok q => obtain ⟨vs, r1⟩ := q; simp only [h1, Except.ok.injEq, Prod.mk.injEq] at h; rw [← h.2]; exact decSent_le _ _ bs vs r1 h1
  | achProg =>
    simp only [hk] at h
    cases h1 : decSent achProgFields (bs.length + 1) bs with
    | error x => simp [h1] at h
    | ok q => obtain ⟨vs, r1⟩ := q; simp only [h1, Except.ok.injEq, Prod.mk.injEq] at h; rw [← h.2]; exact decSent_le _ _ bs vs r1 h1
  | splines =>
    simp only [hk] at h
    cases h1 : decSplines bs with
    | error x => simp [h1] at h
    | ok q => obtain ⟨vs, r1⟩ := q; simp only [h1, Except.ok.injEq, Prod.mk.injEq] at h; rw [← h.2]; exact decSplines_le bs vs r1 h1
  | updateMask => simp only [hk] at h; exact decUpdateMask_le bs v r h
  | mask w ls => simp only [hk] at h; exact decMask_le w (decTuple ls) (fun bs v r hh => decTuple_le _ bs v r hh) bs v r h
  | gear => simp only [hk] at h; exact decMask_le 4 decGear decGear_le bs v r h
  | namedGuid => simp only [hk] at h; exact decNamedGuid_le bs v r h
  | virp => simp only [hk] at h; exact decVirp_le bs v r h
  | other => simp [hk] at h

theorem decLeaf_no_growth (l : Leaf) (bs r : Bytes) (v : Val) (h : decLeaf l bs = .ok (v, r)) : r.length ≤ bs.length := by
  cases l with
  | int k e =>
    simp only [decLeaf] at h
    cases hd : decInt k e bs with
    | error x => simp [hd] at h
    | ok p => obtain ⟨n, r'⟩ := p; simp only [hd, Except.ok.injEq, Prod.mk.injEq] at h; rw [← h.2]; exact decInt_le k e bs r' n hd
  | bool k =>
    simp only [decLeaf] at h
    cases hd : decInt k .le bs with
    | error x => simp [hd] at h
    | ok p => obtain ⟨n, r'⟩ := p; simp only [hd, Except.ok.injEq, Prod.mk.injEq] at h; rw [← h.2]; exact decInt_le k .le bs r' n hd
  | enumT k e vals =>
    simp only [decLeaf] at h
    cases hd : decInt k e bs with
    | error x => simp [hd] at h
    | ok p =>
      obtain ⟨n, r'⟩ := p
      simp only [hd] at h
      split at h
      · simp only [Except.ok.injEq, Prod.mk.injEq] at h; rw [← h.2]; exact decInt_le k e bs r' n hd
      · cases h
  | lvl k =>
    simp only [decLeaf] at h
    cases hd : decInt k .le bs with
    | error x => simp [hd] at h
    | ok p =>
      obtain ⟨n, r'⟩ := p
      simp only [hd] at h
      split at h
      · simp only [Except.ok.injEq, Prod.mk.injEq] at h; rw [← h.2]; exact decInt_le k .le bs r' n hd
      · cases h
  | dateTime =>
    simp only [decLeaf] at h
    cases hd : decInt 4 .le bs with
    | error x => simp [hd] at h
    | ok p =>
      obtain ⟨n, r'⟩ := p
      simp only [hd] at h
      split at h
      · simp only [Except.ok.injEq, Prod.mk.injEq] at h; rw [← h.2]; exact decInt_le 4 .le bs r' n hd
      · cases h
  | cstring =>
    simp only [decLeaf] at h
    cases hs : splitAtZero bs with
    | none => simp [hs] at h
    | some p =>
      obtain ⟨s, r'⟩ := p
      simp only [hs, Except.ok.injEq, Prod.mk.injEq] at h
      have := splitAtZero_le bs s r' hs
      rw [← h.2]; omega
  | sizedCString =>
    simp only [decLeaf] at h
    cases hd : decInt 4 .le bs with
    | error x => simp [hd] at h
    | ok p =>
      obtain ⟨n, r'⟩ := p
      simp only [hd] at h
      have hle := decInt_le 4 .le bs r' n hd
      split at h
      · cases h
      · split at h
        · split at h
          · cases h
          · split at h
            · simp only [Except.ok.injEq, Prod.mk.injEq] at h
              rw [← h.2]; simp; omega
            · cases h
        · cases h
  | string =>
    simp only [decLeaf] at h
    cases hd : decInt 1 .le bs with
    | error x => simp [hd] at h
    | ok p =>
      obtain ⟨n, r'⟩ := p
      simp only [hd] at h
      have hle := decInt_le 1 .le bs r' n hd
      split at h
      · simp only [Except.ok.injEq, Prod.mk.injEq] at h
        rw [← h.2]; simp; omega
      · cases h
  | packedGuid =>
    simp only [decLeaf] at h
    cases bs with
    | nil => simp at h
    | cons m rr =>
      simp only at h
      cases hu : unpackBytes (natToBits 8 m.toNat) rr with
      | error e => simp [hu] at h
      | ok p =>
        obtain ⟨g, r'⟩ := p
        simp only [hu, Except.ok.injEq, Prod.mk.injEq] at h
        have := unpack_le _ rr g r' hu
        rw [← h.2]; simp; omega
  | prim nm => simp only [decLeaf] at h; exact decPrim_no_growth nm bs r v h

theorem iterDec_no_growth (f : Bytes → Except Err (Val × Bytes)) (hf : ∀ bs v r, f bs = .ok (v, r) → r.length ≤ bs.length) :
    ∀ (k : Nat) (bs : Bytes) (vs : List Val) (r : Bytes), iterDec f k bs = .ok (vs, r) → r.length ≤ bs.length := by
  intro k
  induction k with
  | zero => intro bs vs r h; simp [iterDec] at h; rw [h.2]; exact Nat.le_refl _
  | succ k ih =>
    intro bs vs r h
    simp only [iterDec] at h
    cases h1 : f bs with
    | error x => simp [h1] at h
    | ok p =>
      obtain ⟨v, r1⟩ := p
      simp only [h1] at h
      cases h2 : iterDec f k r1 with
      | error x => simp [h2] at h
      | ok q =>
        obtain ⟨vs', r2⟩ := q
        simp only [h2, Except.ok.injEq, Prod.mk.injEq] at h
        have a := hf bs v r1 h1
        have b := ih r1 vs' r2 h2
        rw [← h.2]; omega

/-- a counted array whose elements occupy at least one byte never succeeds with more elements than input bytes -/
theorem iterDec_count (f : Bytes → Except Err (Val × Bytes)) (hf : ∀ bs v r, f bs = .ok (v, r) → r.length < bs.length) :
    ∀ (k : Nat) (bs : Bytes) (vs : List Val) (r : Bytes), iterDec f k bs = .ok (vs, r) → k + r.length ≤ bs.length := by
  intro k
  induction k with
  | zero => intro bs vs r h; simp [iterDec] at h; rw [h.2]; omega
  | succ k ih =>
    intro bs vs r h
    simp only [iterDec] at h
    cases h1 : f bs with
    | error x => simp [h1] at h
    | ok p =>
      obtain ⟨v, r1⟩ := p
      simp only [h1] at h
      cases h2 : iterDec f k r1 with
      | error x => simp [h2] at h
      | ok q =>
        obtain ⟨vs', r2⟩ := q
        simp only [h2, Except.ok.injEq, Prod.mk.injEq] at h
        have a := hf bs v r1 h1
        have b := ih r1 vs' r2 h2
        rw [← h.2]; omega

/-- an endless array has at most as many elements as there are input bytes (its loop makes progress or stops) -/
theorem iterDecAll_count (f : Bytes → Except Err (Val × Bytes)) :
    ∀ (fuel : Nat) (bs : Bytes) (vs : List Val), iterDecAll f fuel bs = .ok vs → vs.length ≤ bs.length := by
  intro fuel
  induction fuel with
  | zero =>
    intro bs vs h
    cases bs with
    | nil => simp [iterDecAll] at h; simp [h]
    | cons x bs => simp [iterDecAll] at h
  | succ fuel ih =>
    intro bs vs h
    cases bs with
    | nil => simp [iterDecAll] at h; simp [h]
    | cons x bs =>
      simp only [iterDecAll] at h
      cases h1 : f (x :: bs) with
      | error e => simp [h1] at h
      | ok p =>
        obtain ⟨v, r⟩ := p
        simp only [h1] at h
        split at h
        · rename_i hlt
          cases h2 : iterDecAll f fuel r with
          | error e => simp [h2] at h
          | ok vs' =>
            simp only [h2, Except.ok.injEq] at h
            have := ih r vs' h2
            rw [← h]; simp at hlt ⊢; omega
        · cases h

mutual
theorem decTy_no_growth : ∀ (t : Ty) (env : Env) (bs : Bytes) (v : Val) (r : Bytes), decTy t env bs = .ok (v, r) → r.length ≤ bs.length
  | .leaf l, env, bs, v, r, h => by simp only [decTy] at h; exact decLeaf_no_growth l bs r v h
  | .struct ms, env, bs, v, r, h => by
      simp only [decTy] at h
      cases hd : decMembers ms [] bs with
      | error x => simp [hd] at h
      | ok p =>
        obtain ⟨vs, e', r'⟩ := p
        simp only [hd, Except.ok.injEq, Prod.mk.injEq] at h
        rw [← h.2]; exact decMembers_no_growth ms [] bs vs e' r' hd
  | .arrFixed n t, env, bs, v, r, h => by
      simp only [decTy] at h
      cases hd : iterDec (decTy t env) n bs with
      | error x => simp [hd] at h
      | ok p =>
        obtain ⟨vs, r'⟩ := p
        simp only [hd, Except.ok.injEq, Prod.mk.injEq] at h
        rw [← h.2]
        exact iterDec_no_growth (decTy t env) (fun bs v r hh => decTy_no_growth t env bs v r hh) n bs vs r' hd
  | .arrVar var t, env, bs, v, r, h => by
      simp only [decTy] at h
      cases hx : env.get var with
      | none => simp [hx] at h
      | some n =>
        simp only [hx] at h
        cases hd : iterDec (decTy t env) n bs with
        | error x => simp [hd] at h
        | ok p =>
          obtain ⟨vs, r'⟩ := p
          simp only [hd, Except.ok.injEq, Prod.mk.injEq] at h
          rw [← h.2]
          exact iterDec_no_growth (decTy t env) (fun bs v r hh => decTy_no_growth t env bs v r hh) n bs vs r' hd

theorem decMember_no_growth : ∀ (m : Member) (env : Env) (bs : Bytes) (v : Val) (env' : Env) (r : Bytes),
    decMember m env bs = .ok (v, env', r) → r.length ≤ bs.length
  | .field id role t, env, bs, v, env', r, h => by
      simp only [decMember] at h
      cases hd : decTy t env bs with
      | error x => simp [hd] at h
      | ok p =>
        obtain ⟨v', r'⟩ := p
        simp only [hd, Except.ok.injEq, Prod.mk.injEq] at h
        rw [← h.2.2]; exact decTy_no_growth t env bs v' r' hd
  | .ifs var b, env, bs, v, env', r, h => by
      simp only [decMember] at h
      cases hx : env.get var with
      | none => simp [hx] at h
      | some x =>
        simp only [hx] at h
        cases hd : decBranches b x env bs with
        | error e => simp [hd] at h
        | ok p =>
          obtain ⟨vs, e', r'⟩ := p
          simp only [hd, Except.ok.injEq, Prod.mk.injEq] at h
          rw [← h.2.2]; exact decBranches_no_growth b x env bs vs e' r' hd
  | .endless id t, env, bs, v, env', r, h => by
      simp only [decMember] at h
      cases hd : iterDecAll (decTy t env) bs.length bs with
      | error x => simp [hd] at h
      | ok vs => simp only [hd, Except.ok.injEq, Prod.mk.injEq] at h; rw [← h.2.2]; simp
  | .optional ms, env, bs, v, env', r, h => by
      simp only [decMember] at h
      split at h
      · simp only [Except.ok.injEq, Prod.mk.injEq] at h; rw [← h.2.2]; simp
      · cases hd : decMembers ms env bs with
        | error x => simp [hd] at h
        | ok p =>
          obtain ⟨vs, e', r'⟩ := p
          simp only [hd, Except.ok.injEq, Prod.mk.injEq] at h
          rw [← h.2.2]; exact decMembers_no_growth ms env bs vs e' r' hd

theorem decBranches_no_growth : ∀ (b : Branches) (x : Nat) (env : Env) (bs : Bytes) (vs : List Val) (env' : Env) (r : Bytes),
    decBranches b x env bs = .ok (vs, env', r) → r.length ≤ bs.length
  | .els ms, x, env, bs, vs, env', r, h => by simp only [decBranches] at h; exact decMembers_no_growth ms env bs vs env' r h
  | .cons c ms b', x, env, bs, vs, env', r, h => by
      simp only [decBranches] at h
      split at h
      · exact decMembers_no_growth ms env bs vs env' r h
      · exact decBranches_no_growth b' x env bs vs env' r h

theorem decMembers_no_growth : ∀ (ms : Members) (env : Env) (bs : Bytes) (vs : List Val) (env' : Env) (r : Bytes),
    decMembers ms env bs = .ok (vs, env', r) → r.length ≤ bs.length
  | .nil, env, bs, vs, env', r, h => by simp only [decMembers, Except.ok.injEq, Prod.mk.injEq] at h; rw [h.2.2]; exact Nat.le_refl _
  | .cons m ms, env, bs, vs, env', r, h => by
      simp only [decMembers] at h
      cases hd1 : decMember m env bs with
      | error x => simp [hd1] at h
      | ok p =>
        obtain ⟨v, e1, r1⟩ := p
        simp only [hd1] at h
        cases hd2 : decMembers ms e1 r1 with
        | error x => simp [hd2] at h
        | ok q =>
          obtain ⟨vs', e2, r2⟩ := q
          simp only [hd2, Except.ok.injEq, Prod.mk.injEq] at h
          have a := decMember_no_growth m env bs v e1 r1 hd1
          have b := decMembers_no_growth ms e1 r1 vs' e2 r2 hd2
          rw [← h.2.2]; omega
end

end WowVerif.Sem

open WowVerif.Sem in
#print axioms decode_total
open WowVerif.Sem in
#print axioms decMembers_no_growth
open WowVerif.Sem in
#print axioms iterDec_count
open WowVerif.Sem in
#print axioms iterDecAll_count
