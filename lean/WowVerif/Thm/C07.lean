/-
C07 — the generator compiles any valid wowm program to a codec implementing it.
The oracle for programs nobody has written yet: the specification semantics and its laws are universally quantified over
closed programs, so for EVERY well-formed program (not only the shipped corpus) there is a unique decoding of every
canonical encoding, encodings determine values, and the well-formedness the laws need is decidable (`wfMs`).  The check
(checks/c07.py) draws random programs, runs them through the real generator and compiler, and compares the emitted codec
with this oracle.
-/
import WowVerif.Thm.C01
import WowVerif.Thm.C03
namespace WowVerif.Sem

/-- every canonical encoding of every well-formed program decodes to the value it encodes -/
theorem program_roundtrip (c : Members) (hw : wfMs c = true) :
    ∀ (vs : List Val) (b : Bytes), encode c vs = some b → decode c b = .ok vs :=
  fun vs b h => decode_encode c vs b hw h

/-- … and re-encodes byte-identically: a codec that agrees with the specification on decode and encode reproduces the frame -/
theorem program_reencode (c : Members) (hw : wfMs c = true) (vs : List Val) (b : Bytes) (h : encode c vs = some b) :
    (match decode c b with | .ok vs' => encode c vs' | .error _ => none) = some b := by
  rw [program_roundtrip c hw vs b h]; exact h

/-- well-formedness is decidable: the generator's input class has a checkable description -/
instance (c : Members) : Decidable (wfMs c = true) := inferInstance

end WowVerif.Sem

open WowVerif.Sem in
#print axioms program_roundtrip
open WowVerif.Sem in
#print axioms program_reencode
