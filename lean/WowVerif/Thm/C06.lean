/-
C06 — blocking, tokio and async-std variants agree under every stream chunking (schedule independence of decoders).
For EVERY decoder script, EVERY partition of the input into delivery chunks and EVERY placement of `Pending`:
the chunked run returns exactly what the blocking run returns on the concatenated input — the same value and remaining
bytes, or the same error (truncated input: `unexpectedEof` in both).
-/
import WowVerif.Model.Chunk
import WowVerif.Model.ChunkFrame
namespace WowVerif.Chunk

private theorem fill_spec (buf : Bytes) (cs : Schedule) (n : Nat) :
    (match fill buf cs n with
     | some (t, b', cs') => n ≤ (buf ++ flatten cs).length ∧ t = (buf ++ flatten cs).take n ∧ b' ++ flatten cs' = (buf ++ flatten cs).drop n
     | none => (buf ++ flatten cs).length < n) := by
  induction cs generalizing buf with
  | nil =>
    by_cases h : n ≤ buf.length
    · have : fill buf [] n = some (buf.take n, buf.drop n, []) := by rw [fill]; simp [h]
      rw [this]
      simp [flatten, h]
    · have : fill buf [] n = none := by rw [fill]; simp [h]
      rw [this]
      simp only [flatten, List.append_nil]
      omega
  | cons c r ih =>
    cases c with
    | none =>
      by_cases h : n ≤ buf.length
      · have : fill buf (none :: r) n = some (buf.take n, buf.drop n, none :: r) := by rw [fill]; simp [h]
        rw [this]
        refine ⟨by simp; omega, ?_, ?_⟩
        · rw [List.take_append_of_le_length h]
        · rw [List.drop_append_of_le_length h]
      · have : fill buf (none :: r) n = fill buf r n := by rw [fill]; simp [h]
        rw [this]
        simpa [flatten] using ih buf
    | some c =>
      by_cases h : n ≤ buf.length
      · have : fill buf (some c :: r) n = some (buf.take n, buf.drop n, some c :: r) := by rw [fill]; simp [h]
        rw [this]
        refine ⟨by simp; omega, ?_, ?_⟩
        · rw [List.take_append_of_le_length h]
        · rw [List.drop_append_of_le_length h]
      · have : fill buf (some c :: r) n = fill (buf ++ c) r n := by rw [fill]; simp [h]
        rw [this]
        have := ih (buf ++ c)
        simpa [flatten, List.append_assoc] using this

/-- **schedule independence**: any partition into chunks, any `Pending` placement -/
theorem chunk_invariant {α} (d : Dec α) (buf : Bytes) (cs : Schedule) :
    runChunked d buf cs = runWhole d (buf ++ flatten cs) := by
  induction d generalizing buf cs with
  | done a => rfl
  | fail e => rfl
  | need n k ih =>
    simp only [runChunked, runWhole]
    have hs := fill_spec buf cs n
    cases hf : fill buf cs n with
    | none =>
      simp only [hf] at hs
      rw [if_neg (by omega)]
    | some p =>
      obtain ⟨t, b', cs'⟩ := p
      simp only [hf] at hs
      obtain ⟨h1, h2, h3⟩ := hs
      rw [if_pos h1]
      show runChunked (k t) b' cs' = _
      rw [ih t b' cs', h2, h3]

/-- started with nothing received: the async reader over a schedule = the blocking reader over the whole buffer -/
theorem async_eq_blocking {α} (d : Dec α) (cs : Schedule) : runChunked d [] cs = runWhole d (flatten cs) := by
  simpa using chunk_invariant d [] cs

/-- two schedules that deliver the same bytes give the same result (single-byte delivery, one chunk, anything between) -/
theorem schedules_agree {α} (d : Dec α) (cs cs' : Schedule) (h : flatten cs = flatten cs') :
    runChunked d [] cs = runChunked d [] cs' := by
  rw [async_eq_blocking, async_eq_blocking, h]

/-- truncated input: if the blocking reader reports end-of-stream so does every chunked run -/
theorem eof_kind {α} (d : Dec α) (cs : Schedule) (h : runWhole d (flatten cs) = .error .unexpectedEof) :
    runChunked d [] cs = .error .unexpectedEof := by
  rw [async_eq_blocking, h]

/-! ### non-vacuity: a length-prefixed string reader -/
def exDec : Dec Bytes := .need 1 fun l => .need (l.headD 0).toNat fun s => .done s
example : runWhole exDec [3, 97, 98, 99, 7] = .ok ([97, 98, 99], [7]) := by rfl
example : runChunked exDec [] [none, some [3], none, none, some [97], some [98, 99, 7]] = .ok ([97, 98, 99], [7]) := by rfl
example : runChunked exDec [] [some [3, 97], none] = .error .unexpectedEof := by rfl

/-! ### the world header/body readers as scripts refine the frame reader of C02 -/
section frames
open WowVerif.Frame

private theorem g_take {n i : Nat} (bs : Bytes) (h : i < n) : (bs.take n).getD i 0 = bs.getD i 0 := by
  simp [List.getD, h]

private theorem g_drop_take {n m i : Nat} (bs : Bytes) (h : i < m) : ((bs.drop n).take m).getD i 0 = bs.getD (n + i) 0 := by
  simp [List.getD, h]

private theorem client_case (api : Api) (e : Exp) (bs : Bytes) :
    runWhole (frameDec e .client) bs = mapErr (readFrame api e .client bs) := by
  simp only [frameDec, runWhole, readFrame, readHeader, take?, b]
  by_cases h2 : 2 ≤ bs.length
  · by_cases h6 : 6 ≤ bs.length
    · have h4 : 4 ≤ (bs.drop 2).length := by simp; omega
      simp only [h2, h6, h4, if_true]
      simp only [g_take bs (show 0 < 2 by omega), g_take bs (show 1 < 2 by omega),
        g_drop_take bs (show 0 < 4 by omega), g_drop_take bs (show 1 < 4 by omega), g_drop_take bs (show 2 < 4 by omega), g_drop_take bs (show 3 < 4 by omega),
        List.drop_drop, g_take bs (show 0 < 6 by omega), g_take bs (show 1 < 6 by omega), g_take bs (show 2 < 6 by omega), g_take bs (show 3 < 6 by omega),
        g_take bs (show 4 < 6 by omega), g_take bs (show 5 < 6 by omega)]
      split <;> simp [mapErr]
    · have h4 : ¬ 4 ≤ (bs.drop 2).length := by simp; omega
      simp only [h2, h6, h4, ↓reduceIte, mapErr]
  · have h6 : ¬ 6 ≤ bs.length := by omega
    simp only [h2, h6, ↓reduceIte, mapErr]

private theorem server_case (api : Api) (e : Exp) (bs : Bytes) :
    runWhole (frameDec e .server) bs = mapErr (readFrame api e .server bs) := by
  simp only [frameDec, readFrame, readHeader, take?, b]
  by_cases hw : e = .wrath
  · simp only [hw, ↓reduceIte, runWhole, true_and]
    by_cases h4 : 4 ≤ bs.length
    · simp only [h4, ↓reduceIte]
      by_cases hl : ((bs.take 4).getD 0 0).toNat ≥ 128
      · simp only [hl, ↓reduceIte, runWhole]
        by_cases h1 : 1 ≤ (bs.drop 4).length
        · simp only [h1, ↓reduceIte]
          split <;> simp [mapErr]
        · simp only [h1, ↓reduceIte, mapErr]
      · simp only [hl, ↓reduceIte, runWhole]
        split <;> simp [mapErr]
    · simp only [h4, ↓reduceIte, mapErr]
  · simp only [hw, ↓reduceIte, runWhole, false_and]
    by_cases h2 : 2 ≤ bs.length
    · by_cases h4 : 4 ≤ bs.length
      · have h2' : 2 ≤ (bs.drop 2).length := by simp; omega
        simp only [h2, h4, h2', ↓reduceIte]
        simp only [g_take bs (show 0 < 2 by omega), g_take bs (show 1 < 2 by omega),
          g_drop_take bs (show 0 < 2 by omega), g_drop_take bs (show 1 < 2 by omega),
          List.drop_drop, g_take bs (show 0 < 4 by omega), g_take bs (show 1 < 4 by omega), g_take bs (show 2 < 4 by omega), g_take bs (show 3 < 4 by omega)]
        split <;> simp [mapErr]
      · have h2' : ¬ 2 ≤ (bs.drop 2).length := by simp; omega
        simp only [h2, h4, h2', ↓reduceIte, mapErr]
    · have h4 : ¬ 4 ≤ bs.length := by omega
      simp only [h2, h4, ↓reduceIte, mapErr]

/-- the script run on a whole buffer IS `Frame.readFrame` (the reader model that C02/C05 tie to the code) -/
theorem frameDec_refines (api : Api) (e : Exp) (d : Dir) (bs : Bytes) :
    runWhole (frameDec e d) bs = mapErr (readFrame api e d bs) := by
  cases d
  · exact client_case api e bs
  · exact server_case api e bs

/-- **world readers under any chunking**: the async header/body reader over any schedule returns what the blocking frame
reader returns on the concatenated bytes -/
theorem frame_chunked (api : Api) (e : Exp) (d : Dir) (cs : Schedule) :
    runChunked (frameDec e d) [] cs = mapErr (readFrame api e d (flatten cs)) := by
  rw [async_eq_blocking, frameDec_refines]

example : runChunked (frameDec .wrath .server) [] [some [0x80], none, some [0x00, 0x03], some [0xAA, 0x04, 0x07], none, some [9]]
    = .ok ((0x04AA, [0x07]), [9]) := by rfl
end frames

end WowVerif.Chunk

open WowVerif.Chunk in
#print axioms chunk_invariant
open WowVerif.Chunk in
#print axioms schedules_agree
open WowVerif.Chunk in
#print axioms eof_kind
open WowVerif.Chunk in
#print axioms frameDec_refines
open WowVerif.Chunk in
#print axioms frame_chunked
