/-
C06 — blocking, tokio and async-std variants agree under every stream chunking (schedule independence of decoders).
For EVERY decoder script, EVERY partition of the input into delivery chunks and EVERY placement of `Pending`:
the chunked run returns exactly what the blocking run returns on the concatenated input — the same value and remaining
bytes, or the same error (truncated input: `unexpectedEof` in both).
-/
import WowVerif.Model.Chunk
namespace WowVerif.Chunk

private theorem fill_spec (buf : Bytes) (cs : Schedule) (n : Nat) :
    (match fill buf cs n with
     | some (t, b', cs') => n ≤ (buf ++ flatten cs).length ∧ t = (buf ++ flatten cs).take n ∧ b' ++ flatten cs' = (buf ++ flatten cs).drop n
     | none => (buf ++ flatten cs).length < n) := by
  induction cs generalizing buf with
  | nil =>
    by_cases h : n ≤ buf.length
    · have : fill buf [] n = some (buf.take n, buf.drop n, []) := by rw [fill]; simp [h]
      rw [this]
      simp [flatten, h]
    · have : fill buf [] n = none := by rw [fill]; simp [h]
      rw [this]
      simp only [flatten, List.append_nil]
      omega
  | cons c r ih =>
    cases c with
    | none =>
      by_cases h : n ≤ buf.length
      · have : fill buf (none :: r) n = some (buf.take n, buf.drop n, none :: r) := by rw [fill]; simp [h]
        rw [this]
        refine ⟨by simp; omega, ?_, ?_⟩
        · rw [List.take_append_of_le_length h]
        · rw [List.drop_append_of_le_length h]
      · have : fill buf (none :: r) n = fill buf r n := by rw [fill]; simp [h]
        rw [this]
        simpa [flatten] using ih buf
    | some c =>
      by_cases h : n ≤ buf.length
      · have : fill buf (some c :: r) n = some (buf.take n, buf.drop n, some c :: r) := by rw [fill]; simp [h]
        rw [this]
        refine ⟨by simp; omega, ?_, ?_⟩
        · rw [List.take_append_of_le_length h]
        · rw [List.drop_append_of_le_length h]
      · have : fill buf (some c :: r) n = fill (buf ++ c) r n := by rw [fill]; simp [h]
        rw [this]
        have := ih (buf ++ c)
        simpa [flatten, List.append_assoc] using this

/-- **schedule independence**: any partition into chunks, any `Pending` placement -/
theorem chunk_invariant {α} (d : Dec α) (buf : Bytes) (cs : Schedule) :
    runChunked d buf cs = runWhole d (buf ++ flatten cs) := by
  induction d generalizing buf cs with
  | done a => rfl
  | fail e => rfl
  | need n k ih =>
    simp only [runChunked, runWhole]
    have hs := fill_spec buf cs n
    cases hf : fill buf cs n with
    | none =>
      simp only [hf] at hs
      rw [if_neg (by omega)]
    | some p =>
      obtain ⟨t, b', cs'⟩ := p
      simp only [hf] at hs
      obtain ⟨h1, h2, h3⟩ := hs
      rw [if_pos h1]
      show runChunked (k t) b' cs' = _
      rw [ih t b' cs', h2, h3]

/-- started with nothing received: the async reader over a schedule = the blocking reader over the whole buffer -/
theorem async_eq_blocking {α} (d : Dec α) (cs : Schedule) : runChunked d [] cs = runWhole d (flatten cs) := by
  simpa using chunk_invariant d [] cs

/-- two schedules that deliver the same bytes give the same result (single-byte delivery, one chunk, anything between) -/
theorem schedules_agree {α} (d : Dec α) (cs cs' : Schedule) (h : flatten cs = flatten cs') :
    runChunked d [] cs = runChunked d [] cs' := by
  rw [async_eq_blocking, async_eq_blocking, h]

/-- truncated input: if the blocking reader reports end-of-stream so does every chunked run -/
theorem eof_kind {α} (d : Dec α) (cs : Schedule) (h : runWhole d (flatten cs) = .error .unexpectedEof) :
    runChunked d [] cs = .error .unexpectedEof := by
  rw [async_eq_blocking, h]

/-! ### non-vacuity: a length-prefixed string reader -/
def exDec : Dec Bytes := .need 1 fun l => .need (l.headD 0).toNat fun s => .done s
example : runWhole exDec [3, 97, 98, 99, 7] = .ok ([97, 98, 99], [7]) := by rfl
example : runChunked exDec [] [none, some [3], none, none, some [97], some [98, 99, 7]] = .ok ([97, 98, 99], [7]) := by rfl
example : runChunked exDec [] [some [3, 97], none] = .error .unexpectedEof := by rfl

end WowVerif.Chunk

open WowVerif.Chunk in
#print axioms chunk_invariant
open WowVerif.Chunk in
#print axioms schedules_agree
open WowVerif.Chunk in
#print axioms eof_kind
