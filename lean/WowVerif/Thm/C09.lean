/-
C09 — computed minimum/maximum sizes bound every valid encoding (specification side).
`const_sized`: a container that is syntactically constant-sized (`fixedMs c = some n`) encodes EVERY value to exactly
`n` bytes.  `leaf_bounds_sound`: every leaf encoding lies within the leaf interval (under the published string limits).
-/
import WowVerif.Thm.C01
import WowVerif.Thm.C04
namespace WowVerif.Sem

/-- **constant-sized containers have exactly that length, for every value** -/
theorem const_sized (c : Members) (n : Nat) (hw : wfMs c = true) (hf : fixedMs c = some n) (vs : List Val) (b : Bytes)
    (h : encode c vs = some b) : b.length = n := by
  have hd := decode_encode c vs b hw h
  unfold decode at hd
  cases hm : decMembers c [] b with
  | error x => simp [hm] at hd
  | ok p =>
    obtain ⟨vs', env', r⟩ := p
    simp only [hm] at hd
    have := fixedMs_consumes c n hf [] b vs' env' r hm
    cases r with
    | nil => simpa using this
    | cons x r => simp at hd

/-- string payload limits of a value (the published per-type limits) -/
def leafWithin (L : Limits) : Leaf → Val → Prop
  | .cstring, .bytes s => s.length + 1 ≤ L.cstringMax
  | .sizedCString, .bytes s => s.length + 5 ≤ L.sizedCStringMax
  | .string, .bytes s => s.length + 1 ≤ L.stringMax
  | _, _ => True

theorem leaf_bounds_sound (L : Limits) (l : Leaf) (v : Val) (b : Bytes) (h : encLeaf l v = some b) (hl : leafWithin L l v)
    (hp : ∀ n, l ≠ .prim n) :
    (leafBounds L l).lo ≤ b.length ∧ (∀ hi, (leafBounds L l).hi = some hi → b.length ≤ hi) := by
  cases l with
  | int k e =>
    cases v <;> simp only [encLeaf] at h <;> try (cases h)
    have := encInt_length k e _ b h
    simp [leafBounds, this]
  | bool k =>
    cases v <;> simp only [encLeaf] at h <;> try (cases h)
    split at h
    · have := encInt_length k .le _ b h; simp [leafBounds, this]
    · cases h
  | enumT k e vals =>
    cases v <;> simp only [encLeaf] at h <;> try (cases h)
    split at h
    · have := encInt_length k e _ b h; simp [leafBounds, this]
    · cases h
  | lvl k =>
    cases v <;> simp only [encLeaf] at h <;> try (cases h)
    split at h
    · have := encInt_length k .le _ b h; simp [leafBounds, this]
    · cases h
  | dateTime =>
    cases v <;> simp only [encLeaf] at h <;> try (cases h)
    split at h
    · have := encInt_length 4 .le _ b h; simp [leafBounds, this]
    · cases h
  | cstring =>
    cases v <;> simp only [encLeaf] at h <;> try (cases h)
    rename_i s
    split at h
    · cases h
    · injection h with h; subst h
      simp only [leafWithin] at hl
      simp [leafBounds]; omega
  | sizedCString =>
    cases v <;> simp only [encLeaf] at h <;> try (cases h)
    rename_i s
    split at h
    · cases h
    · cases he : encInt 4 .le (s.length + 1) with
      | none => simp [he] at h
      | some hb =>
        simp only [he, Option.map_some, Option.some.injEq] at h
        subst h
        have := encInt_length 4 .le _ hb he
        simp only [leafWithin] at hl
        simp [leafBounds, this]; omega
  | string =>
    cases v <;> simp only [encLeaf] at h <;> try (cases h)
    rename_i s
    cases he : encInt 1 .le s.length with
    | none => simp [he] at h
    | some hb =>
      simp only [he, Option.map_some, Option.some.injEq] at h
      subst h
      have := encInt_length 1 .le _ hb he
      simp only [leafWithin] at hl
      simp [leafBounds, this]; omega
  | packedGuid =>
    cases v <;> simp only [encLeaf] at h <;> try (cases h)
    rename_i n
    split at h
    · simp only [Option.some.injEq] at h
      subst h
      have h8 : (encLE 8 n).length = 8 := length_encLE 8 n
      have hp2 : ∀ bs : Bytes, (packBytes bs).2.length ≤ bs.length := by
        intro bs
        induction bs with
        | nil => simp [packBytes]
        | cons x bs ih => simp only [packBytes]; split <;> simp <;> omega
      have := hp2 (encLE 8 n)
      simp [leafBounds]; omega
    · cases h
  | prim nm => exact absurd rfl (hp nm)

end WowVerif.Sem

open WowVerif.Sem in
#print axioms const_sized
open WowVerif.Sem in
#print axioms leaf_bounds_sound
