/-
C17 — the dissector programs walk every message exactly to its end.
First stage (see DESIGN.md): properties of the interpreter that make "stops exactly at the end" meaningful for EVERY
program and EVERY input — the walk only moves forward, every consumed byte is accounted for by exactly one trace entry —
and the unfolding laws of the two loop forms.  The per-message agreement with the definition is decided by running `run`
on the canonical encodings (checks/c17.py).
-/
import WowVerif.Model.Wireshark
namespace WowVerif.Wireshark

def width (t : Trace) : Nat := (t.map (·.1)).sum

/-- the accounting invariant between two states of one walk: `b` continues `a` -/
structure Ext (a b : St) : Prop where
  bytes : ∃ pre, a.rest = pre ++ b.rest
  trace : ∃ more, b.trace = more ++ a.trace ∧ width more + b.rest.length = a.rest.length

theorem Ext.refl (a : St) : Ext a a := ⟨⟨[], rfl⟩, ⟨[], rfl, by simp [width]⟩⟩

theorem Ext.trans {a b c : St} (h1 : Ext a b) (h2 : Ext b c) : Ext a c := by
  obtain ⟨⟨p1, hp1⟩, ⟨m1, hm1, hw1⟩⟩ := h1
  obtain ⟨⟨p2, hp2⟩, ⟨m2, hm2, hw2⟩⟩ := h2
  refine ⟨⟨p1 ++ p2, by rw [hp1, hp2, List.append_assoc]⟩, ⟨m2 ++ m1, by rw [hm2, hm1, List.append_assoc], ?_⟩⟩
  simp only [width, List.map_append, List.sum_append] at *
  omega

theorem take_ext (n : Nat) (e : Enc) (st : St) (bs : Bytes) (st' : St) (h : take n e st = .ok (bs, st')) : Ext st st' ∧ st'.env = st.env := by
  unfold take at h
  split at h
  · rename_i hle
    injection h with h
    injection h with _ h2
    subst h2
    refine ⟨⟨⟨st.rest.take n, by simp⟩, ⟨[(n, e)], rfl, ?_⟩⟩, rfl⟩
    simp [width]; omega
  · cases h

theorem take_map_ext (n : Nat) (e : Enc) (st st' : St) (h : (take n e st).map (·.2) = .ok st') : Ext st st' := by
  cases ht : take n e st with
  | error x => rw [ht] at h; cases h
  | ok p =>
    rw [ht] at h
    obtain ⟨bs, s2⟩ := p
    injection h with h
    subst h
    exact (take_ext n e st bs s2 ht).1

theorem iterN_ext (f : St → Except WErr St) (hf : ∀ a b, f a = .ok b → Ext a b) :
    ∀ n a b, iterN f n a = .ok b → Ext a b := by
  intro n
  induction n with
  | zero => intro a b h; injection h with h; subst h; exact Ext.refl a
  | succ n ih =>
    intro a b h
    unfold iterN at h
    cases hfa : f a with
    | error x => rw [hfa] at h; cases h
    | ok c => rw [hfa] at h; exact (hf a c hfa).trans (ih c b h)

theorem iterWhile_ext (f : St → Except WErr St) (hf : ∀ a b, f a = .ok b → Ext a b) :
    ∀ fuel a b, iterWhile f fuel a = .ok b → Ext a b ∧ b.rest = [] := by
  intro fuel
  induction fuel with
  | zero =>
    intro a b h
    unfold iterWhile at h
    by_cases he : a.rest.isEmpty
    · simp only [he, if_true] at h
      injection h with h; subst h
      exact ⟨Ext.refl a, by simpa using he⟩
    · simp only [he] at h; cases h
  | succ n ih =>
    intro a b h
    unfold iterWhile at h
    by_cases he : a.rest.isEmpty
    · simp only [he, if_true] at h
      injection h with h; subst h
      exact ⟨Ext.refl a, by simpa using he⟩
    · simp only [he] at h
      cases hfa : f a with
      | error x => rw [hfa] at h; cases h
      | ok c =>
        rw [hfa] at h
        by_cases hl : c.rest.length < a.rest.length
        · simp only [hl, if_true] at h
          obtain ⟨h1, h2⟩ := ih c b h
          exact ⟨(hf a c hfa).trans h1, h2⟩
        · simp only [hl] at h; cases h

/-- **an end-of-packet loop that succeeds ends exactly at the end of the packet** (whatever its body) -/
theorem whileNotEnd_ends (f : St → Except WErr St) (fuel : Nat) (a b : St) (h : iterWhile f fuel a = .ok b) : b.rest = [] := by
  induction fuel generalizing a with
  | zero =>
    unfold iterWhile at h
    by_cases he : a.rest.isEmpty
    · simp only [he, if_true] at h; injection h with h; subst h; simpa using he
    · simp only [he] at h; cases h
  | succ n ih =>
    unfold iterWhile at h
    by_cases he : a.rest.isEmpty
    · simp only [he, if_true] at h; injection h with h; subst h; simpa using he
    · simp only [he] at h
      cases hfa : f a with
      | error x => rw [hfa] at h; cases h
      | ok c =>
        rw [hfa] at h
        by_cases hl : c.rest.length < a.rest.length
        · simp only [hl, if_true] at h; exact ih c h
        · simp only [hl] at h; cases h

mutual
theorem runStmt_ext (ctx : Ctx) : ∀ (s : Stmt) (a b : St), runStmt ctx s a = .ok b → Ext a b
  | .add n e, a, b, h => by unfold runStmt at h; exact take_map_ext n e a b h
  | .addv v e, a, b, h => by
      unfold runStmt at h
      cases hv : a.env.lookup v with
      | none => rw [hv] at h; cases h
      | some n => rw [hv] at h; exact take_map_ext n e a b h
  | .addrest e, a, b, h => by unfold runStmt at h; exact take_map_ext _ e a b h
  | .ret n e v, a, b, h => by
      unfold runStmt at h
      cases ht : take n e a with
      | error x => rw [ht] at h; cases h
      | ok p =>
        rw [ht] at h
        obtain ⟨bs, s2⟩ := p
        injection h with h
        subst h
        have := (take_ext n e a bs s2 ht).1
        exact ⟨this.bytes, this.trace⟩
  | .cstr, a, b, h => by
      unfold runStmt at h
      cases hz : zeroIndex a.rest with
      | none => rw [hz] at h; cases h
      | some k => rw [hz] at h; exact take_map_ext _ _ a b h
  | .scstr, a, b, h => by
      unfold runStmt at h
      split at h
      · exact take_map_ext _ _ a b h
      · cases h
  | .str, a, b, h => by
      unfold runStmt at h
      split at h
      · exact take_map_ext _ _ a b h
      · cases h
  | .pguid, a, b, h => by
      unfold runStmt at h
      split at h
      · exact take_map_ext _ _ a b h
      · cases h
  | .prim _, a, b, h => by unfold runStmt at h; cases h
  | .forc n body, a, b, h => by
      unfold runStmt at h
      exact iterN_ext _ (fun x y hxy => runBlock_ext ctx body x y hxy) n a b h
  | .forv v body, a, b, h => by
      unfold runStmt at h
      cases hv : a.env.lookup v with
      | none => rw [hv] at h; cases h
      | some n => rw [hv] at h; exact iterN_ext _ (fun x y hxy => runBlock_ext ctx body x y hxy) n a b h
  | .whileNotEnd body, a, b, h => by
      unfold runStmt at h
      exact (iterWhile_ext _ (fun x y hxy => runBlock_ext ctx body x y hxy) _ a b h).1
  | .ifrest body, a, b, h => by
      unfold runStmt at h
      split at h
      · injection h with h; subst h; exact Ext.refl a
      · exact runBlock_ext ctx body a b h
  | .ifs arms, a, b, h => by unfold runStmt at h; exact runArms_ext ctx arms a b h
  | .ver cases, a, b, h => by unfold runStmt at h; exact runCases_ext ctx cases a b h
theorem runBlock_ext (ctx : Ctx) : ∀ (p : Block) (a b : St), runBlock ctx p a = .ok b → Ext a b
  | .nil, a, b, h => by unfold runBlock at h; injection h with h; subst h; exact Ext.refl a
  | .cons s p, a, b, h => by
      unfold runBlock at h
      cases hs : runStmt ctx s a with
      | error x => rw [hs] at h; cases h
      | ok c => rw [hs] at h; exact (runStmt_ext ctx s a c hs).trans (runBlock_ext ctx p c b h)
theorem runArms_ext (ctx : Ctx) : ∀ (p : Arms) (a b : St), runArms ctx p a = .ok b → Ext a b
  | .els p, a, b, h => by unfold runArms at h; exact runBlock_ext ctx p a b h
  | .cons c p rest, a, b, h => by
      unfold runArms at h
      cases hc : c.holds ctx a.env with
      | error x => rw [hc] at h; cases h
      | ok t =>
        rw [hc] at h
        cases t
        · exact runArms_ext ctx rest a b h
        · exact runBlock_ext ctx p a b h
theorem runCases_ext (ctx : Ctx) : ∀ (p : Cases) (a b : St), runCases ctx p a = .ok b → Ext a b
  | .nil, a, b, h => by unfold runCases at h; cases h
  | .cons n p rest, a, b, h => by
      unfold runCases at h
      split at h
      · exact runBlock_ext ctx p a b h
      · exact runCases_ext ctx rest a b h
end

/-- **accounting**: whatever the program and the input, a successful walk consumed a prefix of the input, left the suffix,
and the widths of the fields it reports add up to exactly the number of bytes consumed — so `rest = []` means the
dissector stopped exactly at the end of the message body, having attributed every byte to one field -/
theorem run_accounts (ctx : Ctx) (p : Block) (bs : Bytes) (tr : Trace) (rest : Bytes) (h : run ctx p bs = .ok (tr, rest)) :
    (∃ pre, bs = pre ++ rest) ∧ width tr + rest.length = bs.length := by
  unfold run at h
  cases hr : runBlock ctx p { rest := bs } with
  | error x => rw [hr] at h; cases h
  | ok st =>
    rw [hr] at h
    injection h with h
    injection h with h1 h2
    subst h1; subst h2
    obtain ⟨⟨pre, hpre⟩, ⟨more, hm, hw⟩⟩ := runBlock_ext ctx p _ st hr
    refine ⟨⟨pre, hpre⟩, ?_⟩
    simp only [List.append_nil] at hm
    rw [hm] at *
    simp only [width, List.map_reverse, List.sum_reverse] at *
    exact hw

/-! ### non-vacuity -/
example : run { s2c := false } (.cons (.ret 1 .le 0) (.cons (.forv 0 (.cons (.add 2 .le) .nil)) (.cons .cstr .nil))) [2, 1, 0, 2, 0, 65, 0]
    = .ok ([(1, .le), (2, .le), (2, .le), (2, .na)], []) := by rfl

end WowVerif.Wireshark

open WowVerif.Wireshark in
#print axioms run_accounts
open WowVerif.Wireshark in
#print axioms whileNotEnd_ends
