/-
C16 (version algebra part) — `covers` is inclusion of denotations, `overlaps` is non-empty intersection; hence lookup of
a type by version is unambiguous when no two definitions of one name overlap (the OVERLAPPING_VERSIONS rule).
The diagnostics of the individual rules are checked by fault injection against the generator binary (checks/c16.py).
-/
import WowVerif.Model.Version
namespace WowVerif.Version

theorem covers_eq_prefix (a b : WorldVersion) : covers a b = (comps a).isPrefixOf (comps b) := by
  cases a <;> cases b <;> simp only [covers, comps, List.isPrefixOf] <;> (rw [Bool.eq_iff_iff]; simp [beq_iff_eq]) <;> omega

theorem overlaps_eq (a b : WorldVersion) : overlaps a b = ((comps a).isPrefixOf (comps b) || (comps b).isPrefixOf (comps a)) := by
  cases a <;> cases b <;> simp only [overlaps, comps, List.isPrefixOf] <;> (rw [Bool.eq_iff_iff]; simp [beq_iff_eq]) <;> omega

/-- `a.covers(b)` iff every build of `b` is a build of `a` -/
theorem covers_iff (a b : WorldVersion) : covers a b = true ↔ ∀ build, denotes b build → denotes a build := by
  rw [covers_eq_prefix, List.isPrefixOf_iff_prefix]
  constructor
  · intro h build hb; exact List.IsPrefix.trans h hb
  · intro h; exact h (comps b) (List.prefix_refl _)

private theorem prefix_total {α} (l1 l2 l3 : List α) (h1 : l1 <+: l3) (h2 : l2 <+: l3) : l1 <+: l2 ∨ l2 <+: l1 := by
  induction l3 generalizing l1 l2 with
  | nil =>
    have e1 := List.prefix_nil.mp h1
    subst e1
    exact Or.inl (List.nil_prefix)
  | cons x l3 ih =>
    cases l1 with
    | nil => exact Or.inl List.nil_prefix
    | cons a l1 =>
      cases l2 with
      | nil => exact Or.inr List.nil_prefix
      | cons b l2 =>
        have ⟨e1, p1⟩ := List.cons_prefix_cons.mp h1
        have ⟨e2, p2⟩ := List.cons_prefix_cons.mp h2
        subst e1; subst e2
        rcases ih l1 l2 p1 p2 with h | h
        · exact Or.inl (List.cons_prefix_cons.mpr ⟨rfl, h⟩)
        · exact Or.inr (List.cons_prefix_cons.mpr ⟨rfl, h⟩)

/-- `a.overlaps(b)` iff some build belongs to both -/
theorem overlaps_iff (a b : WorldVersion) : overlaps a b = true ↔ ∃ build, denotes a build ∧ denotes b build := by
  rw [overlaps_eq, Bool.or_eq_true, List.isPrefixOf_iff_prefix, List.isPrefixOf_iff_prefix]
  constructor
  · rintro (h | h)
    · exact ⟨comps b, h, List.prefix_refl _⟩
    · exact ⟨comps a, List.prefix_refl _, h⟩
  · rintro ⟨build, ha, hb⟩
    exact prefix_total _ _ build ha hb

theorem covers_refl (a : WorldVersion) : covers a a = true := (covers_iff a a).mpr (fun _ h => h)
theorem covers_trans (a b c : WorldVersion) (h1 : covers a b = true) (h2 : covers b c = true) : covers a c = true :=
  (covers_iff a c).mpr (fun build hc => (covers_iff a b).mp h1 build ((covers_iff b c).mp h2 build hc))
theorem overlaps_symm (a b : WorldVersion) : overlaps a b = overlaps b a := by
  rw [overlaps_eq, overlaps_eq, Bool.or_comm]
theorem covers_overlaps (a b : WorldVersion) (h : covers a b = true) : overlaps a b = true :=
  (overlaps_iff a b).mpr ⟨comps b, (covers_iff a b).mp h _ (List.prefix_refl _), List.prefix_refl _⟩

/-- **unambiguous lookup**: if no two definitions of a name overlap, at most one of them covers a requested version -/
theorem lookup_unique (defs : List WorldVersion) (hno : ∀ a ∈ defs, ∀ b ∈ defs, a ≠ b → overlaps a b = false)
    (t : WorldVersion) (a b : WorldVersion) (ha : a ∈ defs) (hb : b ∈ defs) (hca : covers a t = true) (hcb : covers b t = true) :
    a = b := by
  apply Decidable.byContradiction
  intro hne
  have h := hno a ha b hb hne
  have : overlaps a b = true :=
    (overlaps_iff a b).mpr ⟨comps t, (covers_iff a t).mp hca _ (List.prefix_refl _), (covers_iff b t).mp hcb _ (List.prefix_refl _)⟩
  rw [h] at this
  cases this

example : covers (.major 1) (.patch 1 12 1) = true ∧ covers (.patch 1 12 1) (.major 1) = false := by decide
example : overlaps (.minor 2 4) (.exact 2 4 3 8606) = true ∧ overlaps (.minor 2 4) (.minor 2 3) = false := by decide

end WowVerif.Version

open WowVerif.Version in
#print axioms covers_iff
open WowVerif.Version in
#print axioms overlaps_iff
open WowVerif.Version in
#print axioms covers_trans
open WowVerif.Version in
#print axioms overlaps_symm
open WowVerif.Version in
#print axioms lookup_unique
