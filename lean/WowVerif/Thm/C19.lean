/-
C19 — every feature combination builds: the cfg-closure part.
`checkAll_sound`: a `true` verdict of the checker (evaluated on the guards and references re-extracted from /repo's current
sources) means that under EVERY feature assignment that respects Cargo's feature table — not only the enumerated ones,
and whatever the value of features outside the table — every compiled item refers only to compiled items.
-/
import WowVerif.Model.Cfg
namespace WowVerif.Cfg

theorem eval_congr (n : Nat) (f : F) (e1 e2 : Nat → Bool) (hb : below n f = true) (h : ∀ k, k < n → e1 k = e2 k) :
    eval e1 f = eval e2 f := by
  induction f with
  | tt => rfl
  | feat k => simp only [below, decide_eq_true_eq] at hb; simp only [eval]; exact h k hb
  | not f ih => simp only [below] at hb; simp only [eval, ih hb]
  | and a b iha ihb => simp only [below, Bool.and_eq_true] at hb; simp only [eval, iha hb.1, ihb hb.2]
  | or a b iha ihb => simp only [below, Bool.and_eq_true] at hb; simp only [eval, iha hb.1, ihb hb.2]

theorem mem_allEnvs (n : Nat) (env : Nat → Bool) : (List.range n).map env ∈ allEnvs n := by
  induction n with
  | zero => simp [allEnvs]
  | succ n ih =>
    simp only [allEnvs, List.mem_flatMap]
    refine ⟨(List.range n).map env, ih, ?_⟩
    rw [List.range_succ, List.map_append]
    cases env n <;> simp

theorem envOf_range (n : Nat) (env : Nat → Bool) (k : Nat) (hk : k < n) : envOf ((List.range n).map env) k = env k := by
  simp [envOf, List.getD, hk]

theorem consistent_congr (n : Nat) (imp : Implied) (e1 e2 : Nat → Bool)
    (hw : imp.all (fun ab => decide (ab.1 < n) && decide (ab.2 < n)) = true) (h : ∀ k, k < n → e1 k = e2 k) :
    consistent imp e1 = consistent imp e2 := by
  unfold consistent
  induction imp with
  | nil => rfl
  | cons ab rest ih =>
    simp only [List.all_cons, Bool.and_eq_true, decide_eq_true_eq] at hw
    simp only [List.all_cons]
    rw [h _ hw.1.1, h _ hw.1.2, ih hw.2]

/-- **soundness of the cfg-closure checker for all feature assignments** -/
theorem checkAll_sound (n : Nat) (imp : Implied) (refs : List Ref)
    (hw : wellFormed n imp refs = true) (h : checkAll n imp refs = true) :
    ∀ env : Nat → Bool, consistent imp env = true → ∀ r ∈ refs, eval env r.site = true → eval env r.target = true := by
  intro env hc r hr hs
  simp only [wellFormed, Bool.and_eq_true] at hw
  obtain ⟨hwr, hwi⟩ := hw
  have hbr := List.all_eq_true.mp hwr r hr
  simp only [Bool.and_eq_true] at hbr
  let l := (List.range n).map env
  have hagree : ∀ k, k < n → envOf l k = env k := fun k hk => envOf_range n env k hk
  have hl := List.all_eq_true.mp h l (mem_allEnvs n env)
  have hc' : consistent imp (envOf l) = true := by rw [consistent_congr n imp _ _ hwi hagree]; exact hc
  simp only [hc', Bool.not_true, Bool.false_or] at hl
  have hro := List.all_eq_true.mp hl r hr
  simp only [refOk, Bool.or_eq_true, Bool.not_eq_true'] at hro
  rw [eval_congr n r.site _ _ hbr.1 hagree, eval_congr n r.target _ _ hbr.2 hagree] at hro
  cases hro with
  | inl h1 => rw [hs] at h1; cases h1
  | inr h2 => exact h2

/-! ### non-vacuity: a `tokio` function that uses the optional `tokio` crate; an unguarded one fails -/
example : checkAll 2 [] [⟨.feat 0, .feat 0⟩, ⟨.and (.feat 0) (.feat 1), .feat 1⟩] = true := by decide
example : checkAll 2 [] [⟨.tt, .feat 0⟩] = false := by decide
example : checkAll 2 [(1, 0)] [⟨.feat 1, .feat 0⟩] = true := by decide      -- implied by the feature table

end WowVerif.Cfg

open WowVerif.Cfg in
#print axioms checkAll_sound
