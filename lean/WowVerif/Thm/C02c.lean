/-
C02 + C01 end to end (Model/Session.lean): framing around the body codec.

* `readMsg_writeMsg`  — one message of a table: written, then read back as the same opcode and value, the reader positioned at the end.
* `session`           — any finite sequence of messages (values of well-formed definitions within the size the header can carry):
                         the concatenation of what is written reads back as the same sequence, ending exactly at the end.
* `aligned`           — whatever frame is on the wire (unknown opcode, body that does not parse): the reader consumes exactly the
                         announced bytes; the stream stays aligned.
* `session_code`      — the same for the programs translated from the generated Rust writers and readers, whenever the driver answers
                         `same` for both (Thm/C01d.lean): what the Rust writers emit, framed, the Rust readers decode to the same values.
-/
import WowVerif.Model.Session
import WowVerif.Thm.C02
import WowVerif.Thm.C01d
namespace WowVerif.Session
open WowVerif.Frame WowVerif.Sem

theorem readMsg_writeMsg (api : Api) (e : Exp) (d : Dir) (t : Table) (op : Nat) (c : Members) (vs : List Val) (body rest : Frame.Bytes)
    (hf : t.find op = some c) (hw : wfMs c = true) (he : Sem.encode c vs = some body)
    (hb : body.length ≤ maxBodyCode e d) (hop : op < opBound d) :
    ∃ f, writeMsg e d t op vs = some f ∧ readMsg api e d t (f ++ rest) = .ok (.msg op vs, rest) := by
  obtain ⟨v, hv, hr⟩ := read_write e d api op body rest hb hop
  refine ⟨v, ?_, ?_⟩
  · simp only [writeMsg, hf, he, hv]
  · have hd : Sem.decode c body = .ok vs := decode_encode c vs body hw he
    simp only [readMsg, hr, hf, hd]

/-- a message the table can carry: its definition is well formed, the value encodes, the body fits the header form -/
def Carries (e : Exp) (d : Dir) (t : Table) (m : Nat × List Val) : Prop :=
  ∃ c body, t.find m.1 = some c ∧ wfMs c = true ∧ Sem.encode c m.2 = some body ∧ body.length ≤ maxBodyCode e d ∧ m.1 < opBound d

theorem session (api : Api) (e : Exp) (d : Dir) (t : Table) (ms : List (Nat × List Val)) (rest : Frame.Bytes)
    (h : ∀ m ∈ ms, Carries e d t m) :
    ∃ s, writeMsgs e d t ms = some s ∧
      readMsgs api e d t ms.length (s ++ rest) = .ok (ms.map (fun m => Outcome.msg m.1 m.2), rest) := by
  induction ms with
  | nil => exact ⟨[], rfl, rfl⟩
  | cons m ms ih =>
    obtain ⟨op, vs⟩ := m
    obtain ⟨s, hs, hr⟩ := ih (fun m hm => h m (List.mem_cons_of_mem _ hm))
    obtain ⟨c, body, hf, hw, he, hb, hop⟩ := h (op, vs) List.mem_cons_self
    obtain ⟨f, hwf, hrf⟩ := readMsg_writeMsg api e d t op c vs body (s ++ rest) hf hw he hb hop
    refine ⟨f ++ s, ?_, ?_⟩
    · simp only [writeMsgs, hwf, hs]
    · simp only [List.length_cons, readMsgs, List.append_assoc, hrf, hr, List.map_cons]

/-- **alignment**: any well-framed bytes — known or unknown opcode, parsing or not — are consumed exactly -/
theorem aligned (api : Api) (e : Exp) (d : Dir) (t : Table) (op : Nat) (body rest : Frame.Bytes)
    (hb : body.length ≤ maxBodyCode e d) (hop : op < opBound d) :
    ∃ f o, writeFrame e d op body = .ok f ∧ readMsg api e d t (f ++ rest) = .ok (o, rest) := by
  obtain ⟨v, hv, hr⟩ := read_write e d api op body rest hb hop
  refine ⟨v, ?_⟩
  simp only [readMsg, hr]
  cases t.find op with
  | none => exact ⟨_, hv, rfl⟩
  | some c =>
    cases hd : Sem.decode c body with
    | ok vs => exact ⟨.msg op vs, hv, by simp [hd]⟩
    | error x => exact ⟨.badBody op x, hv, by simp [hd]⟩

/-- the generated code, as translated: written by a matching writer program, framed, read by a matching reader program -/
theorem session_code (api : Api) (e : Exp) (d : Dir) (op : Nat) (spec writer reader : Members) (vs : List Val) (body rest : Frame.Bytes)
    (hw : writerMatches spec writer = true) (hr : readerMatchesE spec reader = true) (hwf : wfMs spec = true)
    (he : Sem.encode writer vs = some body) (hb : body.length ≤ maxBodyCode e d) (hop : op < opBound d) :
    ∃ f, writeMsg e d [(op, writer)] op vs = some f ∧ readMsg api e d [(op, reader)] (f ++ rest) = .ok (.msg op vs, rest) := by
  obtain ⟨v, hv, hrd⟩ := read_write e d api op body rest hb hop
  have hd : Sem.decode reader body = .ok vs := writer_reader_roundtrip spec writer reader hw hr hwf vs body he
  refine ⟨v, ?_, ?_⟩
  · simp [writeMsg, Table.find, List.lookup, he, hv]
  · simp [readMsg, hrd, Table.find, List.lookup, hd]

/-! ### non-vacuity -/
def exT : Table := [(0x2e6, .cons (.endless 0 (.leaf (.int 1 .le))) .nil), (0x1dc, .cons (.field 0 .plain (.leaf (.int 4 .le))) (.cons (.field 1 .plain (.leaf (.int 4 .le))) .nil))]
example : writeMsgs .wrath .server exT [(0x1dc, [.nat 1, .nat 2]), (0x2e6, [.list [.nat 7]])] =
    some [0, 10, 0xdc, 1, 1, 0, 0, 0, 2, 0, 0, 0, 0, 3, 0xe6, 2, 7] := by rfl
example : Carries .wrath .server exT (0x1dc, [.nat 1, .nat 2]) :=
  ⟨_, [1, 0, 0, 0, 2, 0, 0, 0], rfl, by decide, by rfl, by decide, by decide⟩

end WowVerif.Session

open WowVerif.Session in
#print axioms readMsg_writeMsg
open WowVerif.Session in
#print axioms session
open WowVerif.Session in
#print axioms aligned
open WowVerif.Session in
#print axioms session_code
