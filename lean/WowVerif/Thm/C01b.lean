/-
C01 / C03 / C04 (code side): the program translated from the generated Rust readers is compared with the per-enumerator normal
form `expandMs [] spec` of the program translated from the wowm definition (Model/SemNorm.lean).  This file proves that the
normal form is the same codec:

* `decBranches_select`, `decBranches_armsFor` (and the `enc…` twins): a chain and its per-enumerator expansion decode / encode
  alike for every value among the declared enumerators;
* `readerMatches_sound`: what the driver's `progeq` answer means.

The whole-program statement is `expand_decode` in Thm/C01c.lean (no side condition).
-/
import WowVerif.Model.SemNorm
namespace WowVerif.Sem

theorem decBranches_select : ∀ (bs : Branches) (x : Nat) (env : Env) (inp : Bytes),
    decBranches bs x env inp = decMembers (selectB bs x) env inp
  | .els ms, x, env, inp => by simp [decBranches, selectB]
  | .cons c ms bs, x, env, inp => by
    simp only [decBranches, selectB]
    split
    · rfl
    · exact decBranches_select bs x env inp

theorem encBranches_select : ∀ (bs : Branches) (x : Nat) (env : Env) (vs : List Val),
    encBranches bs x env vs = encMembers (selectB bs x) env vs
  | .els ms, x, env, vs => by simp [encBranches, selectB]
  | .cons c ms bs, x, env, vs => by
    simp only [encBranches, selectB]
    split
    · rfl
    · exact encBranches_select bs x env vs

theorem eq_holds (v x : Nat) : (Cond.eq [v]).holds x = (x == v) := by
  simp only [Cond.holds, List.contains, List.elem]
  cases x == v <;> rfl

/-- a per-enumerator chain decodes like the original chain for every declared value -/
theorem decBranches_armsFor (bs : Branches) (vals : List Nat) (x : Nat) (env : Env) (inp : Bytes) (hx : x ∈ vals) :
    decBranches (armsFor bs vals) x env inp = decBranches bs x env inp := by
  rw [decBranches_select bs]
  induction vals with
  | nil => cases hx
  | cons v vs ih =>
    simp only [armsFor, decBranches, eq_holds]
    by_cases h : x = v
    · subst h; simp
    · have : x ∈ vs := by
        cases hx with
        | head => exact absurd rfl h
        | tail _ h' => exact h'
      simp [h, ih this]

theorem encBranches_armsFor (bs : Branches) (vals : List Nat) (x : Nat) (env : Env) (vs : List Val) (hx : x ∈ vals) :
    encBranches (armsFor bs vals) x env vs = encBranches bs x env vs := by
  rw [encBranches_select bs]
  induction vals with
  | nil => cases hx
  | cons v vs' ih =>
    simp only [armsFor, encBranches, eq_holds]
    by_cases h : x = v
    · subst h; simp
    · have : x ∈ vs' := by
        cases hx with
        | head => exact absurd rfl h
        | tail _ h' => exact h'
      simp [h, ih this]

/-- what `progeq … = same` means -/
theorem readerMatches_sound (spec rust : Members) (h : readerMatches spec rust = true) : rust = expandMs [] spec := by
  simp only [readerMatches, decide_eq_true_eq] at h
  exact h.symm

/-! ### non-vacuity: the chain of SMSG_TRADE_STATUS-like shape -/
def exChain : Branches :=
  .cons (.eq [1]) (.cons (.field 1 .plain (.leaf (.int 8 .le))) .nil)
  (.cons (.eq [12, 22]) (.cons (.field 2 .plain (.leaf (.int 1 .le))) .nil)
  (.cons (.ne 0) (.cons (.field 3 .plain (.leaf (.int 2 .le))) .nil) (.els .nil)))
example : armsFor exChain [0, 1, 12] =
    .cons (.eq [0]) .nil
    (.cons (.eq [1]) (.cons (.field 1 .plain (.leaf (.int 8 .le))) .nil)
    (.cons (.eq [12]) (.cons (.field 2 .plain (.leaf (.int 1 .le))) .nil) (.els .nil))) := by rfl
example : readerMatches
    (.cons (.field 0 .plain (.leaf (.enumT 1 .le [0, 1, 12]))) (.cons (.ifs 0 exChain) .nil))
    (.cons (.field 0 .plain (.leaf (.enumT 1 .le [0, 1, 12]))) (.cons (.ifs 0 (armsFor exChain [0, 1, 12])) .nil)) = true := by decide

end WowVerif.Sem

open WowVerif.Sem in
#print axioms decBranches_armsFor
open WowVerif.Sem in
#print axioms encBranches_armsFor
open WowVerif.Sem in
#print axioms readerMatches_sound
