/-
C17 / C18 — the field list that the definition prescribes (`trMembers`) accounts for every byte of the canonical encoding:
the widths of the prescribed fields add up to the length of `encode`.  Together with `run_accounts` (Thm/C17): when the
dissector's walk reports the prescribed field list, it has consumed exactly the bytes of the message.
-/
import WowVerif.Thm.C17
import WowVerif.Thm.C01
import WowVerif.Lemmas.Bytes
namespace WowVerif.Wireshark
open WowVerif.Sem

theorem width_append (a b : Trace) : width (a ++ b) = width a + width b := by
  simp [width, List.map_append, List.sum_append]

theorem iter_width (ft : Val → Option Trace) (fe : Val → Option Bytes)
    (h : ∀ v tr b, ft v = some tr → fe v = some b → width tr = b.length) :
    ∀ (vs : List Val) (tr : Trace) (b : Bytes), iterTr ft vs = some tr → iterEnc fe vs = some b → width tr = b.length := by
  intro vs
  induction vs with
  | nil => intro tr b h1 h2; simp [iterTr] at h1; simp [iterEnc] at h2; subst h1; subst h2; rfl
  | cons v vs ih =>
    intro tr b h1 h2
    simp only [iterTr] at h1
    simp only [iterEnc] at h2
    cases ha : ft v with
    | none => simp [ha] at h1
    | some ta =>
      cases hb : iterTr ft vs with
      | none => simp [ha, hb] at h1
      | some tb =>
        cases hc : fe v with
        | none => simp [hc] at h2
        | some ba =>
          cases hd : iterEnc fe vs with
          | none => simp [hc, hd] at h2
          | some bb =>
            simp [ha, hb] at h1
            simp [hc, hd] at h2
            subst h1; subst h2
            rw [width_append, List.length_append, h v ta ba ha hc, ih tb bb hb hd]

theorem iter1_width (ft : Val → Option Trace) (fe : Val → Option Bytes)
    (h : ∀ v tr b, ft v = some tr → fe v = some b → width tr = b.length) :
    ∀ (vs : List Val) (tr : Trace) (b : Bytes), iterTr ft vs = some tr → iterEnc1 fe vs = some b → width tr = b.length := by
  intro vs
  induction vs with
  | nil => intro tr b h1 h2; simp [iterTr] at h1; simp [iterEnc1] at h2; subst h1; subst h2; rfl
  | cons v vs ih =>
    intro tr b h1 h2
    simp only [iterTr] at h1
    simp only [iterEnc1] at h2
    cases ha : ft v with
    | none => simp [ha] at h1
    | some ta =>
      cases hb : iterTr ft vs with
      | none => simp [ha, hb] at h1
      | some tb =>
        cases hc : fe v with
        | none => simp [hc] at h2
        | some ba =>
          cases hd : iterEnc1 fe vs with
          | none => cases ba <;> simp [hc, hd] at h2
          | some bb =>
            cases ba with
            | nil => simp [hc, hd] at h2
            | cons x xs =>
              simp [ha, hb] at h1
              simp [hc, hd] at h2
              subst h1; subst h2
              have := h v ta (x :: xs) ha hc
              rw [width_append, this, ih tb bb hb hd]
              simp; omega

/-- a one-byte integer element encodes to one byte -/
theorem byte_len (t : Ty) (env : Env) (v : Val) (b : Bytes) (hb : isByte t = true) (h : encTy t env v = some b) : b.length = 1 := by
  match t, hb with
  | .leaf (.int 1 e), _ =>
    cases v with
    | nat n =>
      simp only [encTy, encLeaf, encInt] at h
      split at h
      · injection h with h; subst h; cases e <;> simp
      · cases h
    | bytes _ => simp [encTy, encLeaf] at h
    | tuple _ => simp [encTy, encLeaf] at h
    | list _ => simp [encTy, encLeaf] at h
    | none => simp [encTy, encLeaf] at h

theorem bytes_len (t : Ty) (env : Env) (hb : isByte t = true) :
    ∀ (vs : List Val) (b : Bytes), iterEnc (encTy t env) vs = some b → b.length = vs.length := by
  intro vs
  induction vs with
  | nil => intro b h; simp [iterEnc] at h; subst h; rfl
  | cons v vs ih =>
    intro b h
    simp only [iterEnc] at h
    cases hc : encTy t env v with
    | none => simp [hc] at h
    | some ba =>
      cases hd : iterEnc (encTy t env) vs with
      | none => simp [hc, hd] at h
      | some bb =>
        simp [hc, hd] at h
        subst h
        simp [byte_len t env v ba hb hc, ih bb hd]; omega

theorem bytes1_len (t : Ty) (env : Env) (hb : isByte t = true) :
    ∀ (vs : List Val) (b : Bytes), iterEnc1 (encTy t env) vs = some b → b.length = vs.length := by
  intro vs
  induction vs with
  | nil => intro b h; simp [iterEnc1] at h; subst h; rfl
  | cons v vs ih =>
    intro b h
    simp only [iterEnc1] at h
    cases hc : encTy t env v with
    | none => simp [hc] at h
    | some ba =>
      cases hd : iterEnc1 (encTy t env) vs with
      | none => cases ba <;> simp [hc, hd] at h
      | some bb =>
        cases ba with
        | nil => simp [hc, hd] at h
        | cons x xs =>
          simp [hc, hd] at h
          subst h
          have := byte_len t env v (x :: xs) hb hc
          simp at this
          simp [this, ih bb hd]

mutual
theorem trTy_width : ∀ (t : Ty) (env : Env) (v : Val) (tr : Trace) (b : Bytes),
    trTy t env v = some tr → encTy t env v = some b → width tr = b.length
  | .leaf l, env, v, tr, b, h1, h2 => by
      simp only [trTy] at h1
      simp only [encTy] at h2
      rw [h2] at h1
      simp only [Option.map_some, Option.some.injEq] at h1
      subst h1
      simp [width]
  | .struct ms, env, v, tr, b, h1, h2 => by
      cases v with
      | tuple vs =>
        simp only [trTy] at h1
        simp only [encTy] at h2
        cases ha : trMembers ms [] vs with
        | none => simp [ha] at h1
        | some p =>
          cases hb : encMembers ms [] vs with
          | none => simp [hb] at h2
          | some q =>
            obtain ⟨t1, e1⟩ := p
            obtain ⟨b1, e2⟩ := q
            simp [ha] at h1
            simp [hb] at h2
            subst h1; subst h2
            exact (trMembers_width ms [] vs t1 e1 b1 e2 ha hb).1
      | nat _ => simp [trTy] at h1
      | bytes _ => simp [trTy] at h1
      | list _ => simp [trTy] at h1
      | none => simp [trTy] at h1
  | .arrFixed n t, env, v, tr, b, h1, h2 => by
      cases v with
      | list vs =>
        simp only [trTy] at h1
        simp only [encTy] at h2
        split at h2
        · by_cases hb : isByte t = true
          · simp only [hb, if_true, Option.some.injEq] at h1
            subst h1
            simp [width, bytes_len t env hb vs b h2]
          · simp only [hb] at h1
            exact iter_width (trTy t env) (encTy t env) (fun v tr b => trTy_width t env v tr b) vs tr b h1 h2
        · cases h2
      | nat _ => simp [trTy] at h1
      | bytes _ => simp [trTy] at h1
      | tuple _ => simp [trTy] at h1
      | none => simp [trTy] at h1
  | .arrVar var t, env, v, tr, b, h1, h2 => by
      cases v with
      | list vs =>
        simp only [trTy] at h1
        simp only [encTy] at h2
        split at h2
        · by_cases hb : isByte t = true
          · simp only [hb, if_true, Option.some.injEq] at h1
            subst h1
            simp [width, bytes_len t env hb vs b h2]
          · simp only [hb] at h1
            exact iter_width (trTy t env) (encTy t env) (fun v tr b => trTy_width t env v tr b) vs tr b h1 h2
        · cases h2
      | nat _ => simp [trTy] at h1
      | bytes _ => simp [trTy] at h1
      | tuple _ => simp [trTy] at h1
      | none => simp [trTy] at h1
theorem trMember_width : ∀ (m : Member) (env : Env) (v : Val) (tr : Trace) (e1 : Env) (b : Bytes) (e2 : Env),
    trMember m env v = some (tr, e1) → encMember m env v = some (b, e2) → width tr = b.length ∧ e1 = e2
  | .field id role t, env, v, tr, e1, b, e2, h1, h2 => by
      simp only [trMember] at h1
      simp only [encMember] at h2
      split at h2
      · cases ha : trTy t env v with
        | none => simp [ha] at h1
        | some t1 =>
          cases hb : encTy t env v with
          | none => simp [hb] at h2
          | some b1 =>
            simp [ha] at h1
            simp [hb] at h2
            obtain ⟨h11, h12⟩ := h1
            obtain ⟨h21, h22⟩ := h2
            subst h11; subst h12; subst h21; subst h22
            exact ⟨trTy_width t env v t1 b1 ha hb, rfl⟩
      · cases h2
  | .ifs var bs, env, v, tr, e1, b, e2, h1, h2 => by
      cases v with
      | tuple vs =>
        simp only [trMember] at h1
        simp only [encMember] at h2
        cases hv : env.get var with
        | none => simp [hv] at h1
        | some x =>
          simp only [hv] at h1 h2
          exact trBranches_width bs x env vs tr e1 b e2 h1 h2
      | nat _ => simp [trMember] at h1
      | bytes _ => simp [trMember] at h1
      | list _ => simp [trMember] at h1
      | none => simp [trMember] at h1
  | .endless id t, env, v, tr, e1, b, e2, h1, h2 => by
      cases v with
      | list vs =>
        simp only [trMember] at h1
        simp only [encMember] at h2
        cases hb2 : iterEnc1 (encTy t env) vs with
        | none => simp [hb2] at h2
        | some b1 =>
          simp [hb2] at h2
          obtain ⟨h21, h22⟩ := h2
          subst h21; subst h22
          by_cases hb : isByte t = true
          · simp only [hb, if_true, Option.some.injEq, Prod.mk.injEq] at h1
            obtain ⟨h11, h12⟩ := h1
            subst h11; subst h12
            exact ⟨by simp [width, bytes1_len t env hb vs b1 hb2], rfl⟩
          · simp only [hb] at h1
            cases ha : iterTr (trTy t env) vs with
            | none => simp [ha] at h1
            | some t1 =>
              simp [ha] at h1
              obtain ⟨h11, h12⟩ := h1
              subst h11; subst h12
              exact ⟨iter1_width (trTy t env) (encTy t env) (fun v tr b => trTy_width t env v tr b) vs t1 b1 ha hb2, rfl⟩
      | nat _ => simp [trMember] at h1
      | bytes _ => simp [trMember] at h1
      | tuple _ => simp [trMember] at h1
      | none => simp [trMember] at h1
  | .optional ms, env, v, tr, e1, b, e2, h1, h2 => by
      cases v with
      | none =>
        simp only [trMember, Option.some.injEq, Prod.mk.injEq] at h1
        simp only [encMember, Option.some.injEq, Prod.mk.injEq] at h2
        obtain ⟨h11, h12⟩ := h1
        obtain ⟨h21, h22⟩ := h2
        subst h11; subst h12; subst h21; subst h22
        exact ⟨rfl, rfl⟩
      | tuple vs =>
        simp only [trMember] at h1
        simp only [encMember] at h2
        cases hb : encMembers ms env vs with
        | none => simp [hb] at h2
        | some q =>
          obtain ⟨b1, e3⟩ := q
          cases b1 with
          | nil => simp [hb] at h2
          | cons x xs =>
            simp [hb] at h2
            obtain ⟨h21, h22⟩ := h2
            subst h21; subst h22
            exact trMembers_width ms env vs tr e1 (x :: xs) e3 h1 hb
      | nat _ => simp [trMember] at h1
      | bytes _ => simp [trMember] at h1
      | list _ => simp [trMember] at h1
theorem trBranches_width : ∀ (bs : Branches) (x : Nat) (env : Env) (vs : List Val) (tr : Trace) (e1 : Env) (b : Bytes) (e2 : Env),
    trBranches bs x env vs = some (tr, e1) → encBranches bs x env vs = some (b, e2) → width tr = b.length ∧ e1 = e2
  | .els ms, x, env, vs, tr, e1, b, e2, h1, h2 => by
      simp only [trBranches] at h1
      simp only [encBranches] at h2
      exact trMembers_width ms env vs tr e1 b e2 h1 h2
  | .cons c ms bs, x, env, vs, tr, e1, b, e2, h1, h2 => by
      simp only [trBranches] at h1
      simp only [encBranches] at h2
      by_cases hc : c.holds x = true
      · simp only [hc, if_true] at h1 h2
        exact trMembers_width ms env vs tr e1 b e2 h1 h2
      · simp only [hc] at h1 h2
        exact trBranches_width bs x env vs tr e1 b e2 h1 h2
theorem trMembers_width : ∀ (ms : Members) (env : Env) (vs : List Val) (tr : Trace) (e1 : Env) (b : Bytes) (e2 : Env),
    trMembers ms env vs = some (tr, e1) → encMembers ms env vs = some (b, e2) → width tr = b.length ∧ e1 = e2
  | .nil, env, vs, tr, e1, b, e2, h1, h2 => by
      obtain ⟨hv, hb, he⟩ := encMembers_nil env vs b e2 h2
      subst hv; subst hb; subst he
      simp only [trMembers, Option.some.injEq, Prod.mk.injEq] at h1
      obtain ⟨h11, h12⟩ := h1
      subst h11; subst h12
      exact ⟨rfl, rfl⟩
  | .cons m ms, env, vs, tr, e1, b, e2, h1, h2 => by
      cases vs with
      | nil => simp [trMembers] at h1
      | cons v vs =>
        simp only [trMembers] at h1
        cases ha : trMember m env v with
        | none => simp [ha] at h1
        | some p =>
          obtain ⟨t1, ea⟩ := p
          simp only [ha] at h1
          cases hb : trMembers ms ea vs with
          | none => simp [hb] at h1
          | some q =>
            obtain ⟨t2, eb⟩ := q
            simp only [hb, Option.some.injEq, Prod.mk.injEq] at h1
            obtain ⟨h11, h12⟩ := h1
            subst h11; subst h12
            by_cases hss : isSelfSize m = true
            · cases m with
              | field id role t =>
                cases role with
                | selfSize =>
                  simp only [trMember] at ha
                  cases hta : trTy t env v with
                  | none => simp [hta] at ha
                  | some tt =>
                    simp [hta] at ha
                    obtain ⟨ha1, ha2⟩ := ha
                    subst ha1; subst ha2
                    simp only [encMembers] at h2
                    cases he2 : encMembers ms (env.bind id v) vs with
                    | none => simp [he2] at h2
                    | some p2 =>
                      obtain ⟨b2, env2⟩ := p2
                      simp only [he2] at h2
                      cases v with
                      | nat n =>
                        simp only at h2
                        split at h2
                        · cases he1 : encTy t env (.nat n) with
                          | none => simp [he1] at h2
                          | some b1 =>
                            simp only [he1, Option.map_some, Option.some.injEq, Prod.mk.injEq] at h2
                            obtain ⟨h21, h22⟩ := h2
                            subst h21; subst h22
                            have w1 := trTy_width t env (.nat n) tt b1 hta he1
                            have w2 := trMembers_width ms (env.bind id (.nat n)) vs t2 eb b2 env2 hb he2
                            exact ⟨by rw [width_append, List.length_append, w1, w2.1], w2.2⟩
                        · cases h2
                      | bytes _ => simp at h2
                      | tuple _ => simp at h2
                      | list _ => simp at h2
                      | none => simp at h2
                | plain => simp [isSelfSize] at hss
                | const c => simp [isSelfSize] at hss
              | ifs _ _ => simp [isSelfSize] at hss
              | endless _ _ => simp [isSelfSize] at hss
              | optional _ => simp [isSelfSize] at hss
            · have hss' : isSelfSize m = false := by simpa using hss
              rw [encMembers_cons_general m ms env v vs hss'] at h2
              cases he1 : encMember m env v with
              | none => simp [he1] at h2
              | some p1 =>
                obtain ⟨b1, env1⟩ := p1
                simp only [he1] at h2
                cases he2 : encMembers ms env1 vs with
                | none => simp [he2] at h2
                | some p2 =>
                  obtain ⟨b2, env2⟩ := p2
                  simp only [he2, Option.some.injEq, Prod.mk.injEq] at h2
                  obtain ⟨h21, h22⟩ := h2
                  subst h21; subst h22
                  have w1 := trMember_width m env v t1 ea b1 env1 ha he1
                  obtain ⟨w11, w12⟩ := w1
                  subst w12
                  have w2 := trMembers_width ms ea vs t2 eb b2 env2 hb he2
                  exact ⟨by rw [width_append, List.length_append, w11, w2.1], w2.2⟩
end

/-- **the prescribed field list accounts for the whole canonical encoding** -/
theorem trace_accounts (c : Members) (vs : List Val) (tr : Trace) (e : Env) (b : Bytes)
    (h1 : trMembers c [] vs = some (tr, e)) (h2 : encode c vs = some b) : width tr = b.length := by
  unfold encode at h2
  cases he : encMembers c [] vs with
  | none => simp [he] at h2
  | some p =>
    obtain ⟨b', e'⟩ := p
    simp [he] at h2
    subst h2
    exact (trMembers_width c [] vs tr e b' e' h1 he).1

/-- … hence a dissector walk that reports the prescribed field list and leaves nothing has consumed exactly the encoding -/
theorem walk_matches_encoding (ctx : Ctx) (p : Block) (c : Members) (vs : List Val) (tr : Trace) (e : Env) (b : Bytes)
    (h1 : trMembers c [] vs = some (tr, e)) (h2 : encode c vs = some b) (h3 : run ctx p b = .ok (tr, [])) :
    width tr = b.length :=
  trace_accounts c vs tr e b h1 h2

end WowVerif.Wireshark

open WowVerif.Wireshark in
#print axioms trace_accounts
