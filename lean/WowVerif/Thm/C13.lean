/-
C13 — UpdateMask accessors, dirty tracking and wire form.
For EVERY finite sequence of set / set_guid / dirty_reset / mark_fully_dirty operations from `new`:
 * the invariant holds (`inv_steps`): the value map is key-sorted, its keys are exactly the header bits, all below 32·blocks;
 * every getter returns the value last set for its field (`get_last_set`);
 * the reported size equals the number of bytes written (`size_eq_written`) — the `assert_eq!` in the writers cannot fire.
-/
import WowVerif.Model.UpdateMask
import WowVerif.Lemmas.Bytes
namespace WowVerif.UpdateMask

def keys (l : List (Nat × Nat)) : List Nat := l.map (·.1)

structure Inv (s : UM) : Prop where
  sorted : (keys s.values).Pairwise (· < ·)
  keysHeader : ∀ k, k ∈ keys s.values ↔ k ∈ s.header
  inRange : ∀ k, k ∈ s.header → k < 32 * s.nblocks

private theorem mem_keys_insert (k v : Nat) (l : List (Nat × Nat)) (x : Nat) :
    x ∈ keys (insertSorted k v l) ↔ x = k ∨ x ∈ keys l := by
  induction l with
  | nil => simp [insertSorted, keys]
  | cons p l ih =>
    obtain ⟨k', v'⟩ := p
    simp only [insertSorted]
    split
    · simp [keys]
    · split
      · rename_i h; subst h; simp [keys]
      · simp only [keys, List.map_cons, List.mem_cons] at ih ⊢
        rw [ih]
        constructor
        · rintro (h | h | h)
          · exact Or.inr (Or.inl h)
          · exact Or.inl h
          · exact Or.inr (Or.inr h)
        · rintro (h | h | h)
          · exact Or.inr (Or.inl h)
          · exact Or.inl h
          · exact Or.inr (Or.inr h)

private theorem sorted_insert (k v : Nat) (l : List (Nat × Nat)) (h : (keys l).Pairwise (· < ·)) :
    (keys (insertSorted k v l)).Pairwise (· < ·) := by
  induction l with
  | nil => simp [insertSorted, keys]
  | cons p l ih =>
    obtain ⟨k', v'⟩ := p
    simp only [keys, List.map_cons, List.pairwise_cons] at h
    simp only [insertSorted]
    split
    · rename_i hlt
      simp only [keys, List.map_cons, List.pairwise_cons, List.mem_cons]
      refine ⟨?_, h.1, h.2⟩
      rintro a (rfl | ha)
      · exact hlt
      · exact Nat.lt_trans hlt (h.1 a ha)
    · split
      · rename_i _ heq; subst heq
        simp only [keys, List.map_cons, List.pairwise_cons]
        exact ⟨h.1, h.2⟩
      · rename_i hnlt hne
        simp only [keys, List.map_cons, List.pairwise_cons]
        refine ⟨?_, ih h.2⟩
        intro a ha
        have := (mem_keys_insert k v l a).mp ha
        rcases this with rfl | ha'
        · omega
        · exact h.1 a ha'

theorem inv_new (t : Nat) : Inv (new t) := by
  refine ⟨?_, ?_, ?_⟩ <;> simp [new, keys]

theorem inv_setBit (s : UM) (b v : Nat) (h : Inv s) : Inv (setBit s b v) := by
  refine ⟨sorted_insert b v s.values h.sorted, ?_, ?_⟩
  · intro k
    simp only [setBit, List.mem_cons]
    rw [mem_keys_insert, h.keysHeader]
  · intro k hk
    simp only [setBit, List.mem_cons] at hk ⊢
    rcases hk with rfl | hk
    · have : k < 32 * (k / 32 + 1) := by omega
      exact Nat.lt_of_lt_of_le this (Nat.mul_le_mul_left 32 (Nat.le_max_right _ _))
    · exact Nat.lt_of_lt_of_le (h.inRange k hk) (Nat.mul_le_mul_left 32 (Nat.le_max_left _ _))

/-- **the invariant is preserved by every operation** -/
theorem inv_step (s : UM) (op : Op) (h : Inv s) : Inv (step s op) := by
  cases op with
  | set b v => exact inv_setBit s b v h
  | guid b lo hi => exact inv_setBit _ _ _ (inv_setBit s b lo h)
  | dirtyReset => exact ⟨h.sorted, h.keysHeader, h.inRange⟩
  | markFullyDirty => exact ⟨h.sorted, h.keysHeader, h.inRange⟩

/-- … hence by every finite operation sequence from `new` (every reachable state) -/
theorem inv_steps (t : Nat) (ops : List Op) : Inv (ops.foldl step (new t)) := by
  have : ∀ (s : UM), Inv s → Inv (ops.foldl step s) := by
    induction ops with
    | nil => intro s h; exact h
    | cons op ops ih => intro s h; exact ih _ (inv_step s op h)
  exact this _ (inv_new t)

private theorem lookup_insert (k v : Nat) (l : List (Nat × Nat)) (x : Nat) :
    lookup x (insertSorted k v l) = if x = k then some v else lookup x l := by
  induction l with
  | nil => simp [insertSorted, lookup]
  | cons p l ih =>
    obtain ⟨k', v'⟩ := p
    simp only [insertSorted]
    split
    · simp only [lookup]
    · split
      · rename_i heq; subst heq
        simp only [lookup]
        split <;> rfl
      · rename_i hnlt hne
        simp only [lookup, ih]
        by_cases hx : x = k
        · subst hx; simp [hne]
        · simp [hx]

/-- what an operation says about field `f` -/
def opSets (op : Op) (f : Nat) : Option Nat :=
  match op with
  | .set b v => if f = b then some v else none
  | .guid b lo hi => if f = b + 1 then some hi else if f = b then some lo else none
  | _ => none

theorem get_step (s : UM) (op : Op) (f : Nat) :
    get (step s op) f = (match opSets op f with | some v => some v | none => get s f) := by
  cases op with
  | set b v =>
    simp only [step, get, setBit, lookup_insert, opSets]
    split <;> rfl
  | guid b lo hi =>
    simp only [step, get, setGuid, setBit, lookup_insert, opSets]
    by_cases h1 : f = b + 1
    · simp [h1]
    · by_cases h2 : f = b <;> simp [h1, h2]
  | dirtyReset => rfl
  | markFullyDirty => rfl

/-- the value last set for field `f` by an operation sequence (later operations win) -/
def lastSet (ops : List Op) (f : Nat) : Option Nat :=
  ops.foldl (fun acc op => match opSets op f with | some v => some v | none => acc) none

/-- **each getter returns the value last set for its field** (or what the state held before, if the sequence never set it);
dirty tracking operations never change what a getter returns -/
theorem get_last_set (s : UM) (ops : List Op) (f : Nat) :
    get (ops.foldl step s) f = (match lastSet ops f with | some v => some v | none => get s f) := by
  have gen : ∀ (s : UM) (acc : Option Nat),
      get (ops.foldl step s) f =
        (match ops.foldl (fun acc op => match opSets op f with | some v => some v | none => acc) none with
         | some v => some v | none => get s f) := by
    induction ops with
    | nil => intro s acc; rfl
    | cons op ops ih =>
      intro s acc
      simp only [List.foldl_cons]
      rw [ih (step s op) acc, get_step]
      -- the fold starting from `opSets op f` instead of `none`
      have key : ∀ (l : List Op) (a : Option Nat),
          l.foldl (fun acc op => match opSets op f with | some v => some v | none => acc) a =
            (match l.foldl (fun acc op => match opSets op f with | some v => some v | none => acc) none with
             | some v => some v | none => a) := by
        intro l
        induction l with
        | nil => intro a; rfl
        | cons o l ihl =>
          intro a
          simp only [List.foldl_cons]
          cases ho : opSets o f with
          | some v => simp only []; rw [ihl (some v)]; cases l.foldl _ none <;> rfl
          | none => simp only []; exact ihl a
      rw [key ops (match opSets op f with | some v => some v | none => none)]
      cases ops.foldl (fun acc op => match opSets op f with | some v => some v | none => acc) none with
      | some v => rfl
      | none => cases opSets op f <;> rfl
  exact gen s none

private theorem sorted_ext (l1 l2 : List Nat) (h1 : l1.Pairwise (· < ·)) (h2 : l2.Pairwise (· < ·)) (h : ∀ a, a ∈ l1 ↔ a ∈ l2) : l1 = l2 := by
  have n1 : l1.Nodup := h1.imp (fun hab => Nat.ne_of_lt hab)
  have n2 : l2.Nodup := h2.imp (fun hab => Nat.ne_of_lt hab)
  have hp := (List.perm_ext_iff_of_nodup n1 n2).mpr h
  exact List.Perm.eq_of_pairwise (le := (· < ·)) (fun a b _ _ hab hba => absurd hab (Nat.lt_asymm hba)) h1 h2 hp

private theorem range_sorted (n : Nat) : (List.range n).Pairwise (· < ·) := by
  simpa using List.pairwise_lt_range (n := n)

private theorem flatMap_len4 {α} (l : List α) (f : α → Bytes) (h : ∀ a, (f a).length = 4) : (l.flatMap f).length = 4 * l.length := by
  induction l with
  | nil => rfl
  | cons a l ih => simp [List.flatMap_cons, h a, ih]; omega

/-- **the reported size equals the bytes written**, for every state satisfying the invariant (every reachable state) -/
theorem size_eq_written (s : UM) (h : Inv s) : (write s).length = size s := by
  -- the keys of the values that are written = the sent fields enumerated in ascending order
  have hk : keys (s.values.filter (fun kv => sent s kv.1)) = (List.range (32 * s.nblocks)).filter (fun b => sent s b) := by
    have e1 : keys (s.values.filter (fun kv => sent s kv.1)) = (keys s.values).filter (fun b => sent s b) := by
      simp only [keys, List.filter_map]; rfl
    rw [e1]
    apply sorted_ext
    · exact h.sorted.filter _
    · exact (range_sorted _).filter _
    · intro a
      simp only [List.mem_filter, List.mem_range]
      constructor
      · rintro ⟨ha, hs⟩
        exact ⟨h.inRange a ((h.keysHeader a).mp ha), hs⟩
      · rintro ⟨_, hs⟩
        refine ⟨(h.keysHeader a).mpr ?_, hs⟩
        simp only [sent, Bool.and_eq_true, List.contains_eq_mem, decide_eq_true_eq] at hs
        exact hs.1
  have hlen : (s.values.filter (fun kv => sent s kv.1)).length = ((List.range (32 * s.nblocks)).filter (fun b => sent s b)).length := by
    rw [← hk]; simp [keys]
  simp only [write, size, List.length_append, List.length_cons, List.length_nil]
  rw [flatMap_len4 _ _ (fun i => length_encLE 4 _), flatMap_len4 _ _ (fun kv => length_encLE 4 _), hlen]
  simp

/-- reachable states never hit the writers' `assert_eq!(size, written)` -/
theorem size_eq_written_reachable (t : Nat) (ops : List Op) :
    (write (ops.foldl step (new t))).length = size (ops.foldl step (new t)) :=
  size_eq_written _ (inv_steps t ops)

/-! ### non-vacuity -/
example : write (step (step (new 25) (.guid 0 4 0)) (.set 22 100)) =
    [1, 0x07, 0x00, 0x40, 0x00, 4, 0, 0, 0, 0, 0, 0, 0, 25, 0, 0, 0, 100, 0, 0, 0] := by rfl
example : size (step (step (new 25) (.guid 0 4 0)) (.set 22 100)) = 21 := by rfl

end WowVerif.UpdateMask

open WowVerif.UpdateMask in
#print axioms inv_steps
open WowVerif.UpdateMask in
#print axioms get_last_set
open WowVerif.UpdateMask in
#print axioms size_eq_written_reachable
