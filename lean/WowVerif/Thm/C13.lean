/-
C13 — UpdateMask accessors, dirty tracking and wire form.
For EVERY finite sequence of set / set_guid / dirty_reset / mark_fully_dirty operations from `new`:
 * the invariant holds (`inv_steps`): the value map is key-sorted, its keys are exactly the header bits, all below 32·blocks;
 * every getter returns the value last set for its field (`get_last_set`);
 * the reported size equals the number of bytes written (`size_eq_written`) — the `assert_eq!` in the writers cannot fire.
-/
import WowVerif.Model.UpdateMask
import WowVerif.Lemmas.Bytes
namespace WowVerif.UpdateMask

def keys (l : List (Nat × Nat)) : List Nat := l.map (·.1)

structure Inv (s : UM) : Prop where
  sorted : (keys s.values).Pairwise (· < ·)
  keysHeader : ∀ k, k ∈ keys s.values ↔ k ∈ s.header
  inRange : ∀ k, k ∈ s.header → k < 32 * s.nblocks

private theorem mem_keys_insert (k v : Nat) (l : List (Nat × Nat)) (x : Nat) :
    x ∈ keys (insertSorted k v l) ↔ x = k ∨ x ∈ keys l := by
  induction l with
  | nil => simp [insertSorted, keys]
  | cons p l ih =>
    obtain ⟨k', v'⟩ := p
    simp only [insertSorted]
    split
    · simp [keys]
    · split
      · rename_i h; subst h; simp [keys]
      · simp only [keys, List.map_cons, List.mem_cons] at ih ⊢
        rw [ih]
        constructor
        · rintro (h | h | h)
          · exact Or.inr (Or.inl h)
          · exact Or.inl h
          · exact Or.inr (Or.inr h)
        · rintro (h | h | h)
          · exact Or.inr (Or.inl h)
          · exact Or.inl h
          · exact Or.inr (Or.inr h)

private theorem sorted_insert (k v : Nat) (l : List (Nat × Nat)) (h : (keys l).Pairwise (· < ·)) :
    (keys (insertSorted k v l)).Pairwise (· < ·) := by
  induction l with
  | nil => simp [insertSorted, keys]
  | cons p l ih =>
    obtain ⟨k', v'⟩ := p
    simp only [keys, List.map_cons, List.pairwise_cons] at h
    simp only [insertSorted]
    split
    · rename_i hlt
      simp only [keys, List.map_cons, List.pairwise_cons, List.mem_cons]
      refine ⟨?_, h.1, h.2⟩
      rintro a (rfl | ha)
      · exact hlt
      · exact Nat.lt_trans hlt (h.1 a ha)
    · split
      · rename_i _ heq; subst heq
        simp only [keys, List.map_cons, List.pairwise_cons]
        exact ⟨h.1, h.2⟩
      · rename_i hnlt hne
        simp only [keys, List.map_cons, List.pairwise_cons]
        refine ⟨?_, ih h.2⟩
        intro a ha
        have := (mem_keys_insert k v l a).mp ha
        rcases this with rfl | ha'
        · omega
        · exact h.1 a ha'

theorem inv_new (t : Nat) : Inv (new t) := by
  refine ⟨?_, ?_, ?_⟩ <;> simp [new, keys]

theorem inv_setBit (s : UM) (b v : Nat) (h : Inv s) : Inv (setBit s b v) := by
  refine ⟨sorted_insert b v s.values h.sorted, ?_, ?_⟩
  · intro k
    simp only [setBit, List.mem_cons]
    rw [mem_keys_insert, h.keysHeader]
  · intro k hk
    simp only [setBit, List.mem_cons] at hk ⊢
    rcases hk with rfl | hk
    · have : k < 32 * (k / 32 + 1) := by omega
      exact Nat.lt_of_lt_of_le this (Nat.mul_le_mul_left 32 (Nat.le_max_right _ _))
    · exact Nat.lt_of_lt_of_le (h.inRange k hk) (Nat.mul_le_mul_left 32 (Nat.le_max_left _ _))

/-- **the invariant is preserved by every operation** -/
theorem inv_step (s : UM) (op : Op) (h : Inv s) : Inv (step s op) := by
  cases op with
  | set b v => exact inv_setBit s b v h
  | guid b lo hi => exact inv_setBit _ _ _ (inv_setBit s b lo h)
  | dirtyReset => exact ⟨h.sorted, h.keysHeader, h.inRange⟩
  | markFullyDirty => exact ⟨h.sorted, h.keysHeader, h.inRange⟩

/-- … hence by every finite operation sequence from `new` (every reachable state) -/
theorem inv_steps (t : Nat) (ops : List Op) : Inv (ops.foldl step (new t)) := by
  have : ∀ (s : UM), Inv s → Inv (ops.foldl step s) := by
    induction ops with
    | nil => intro s h; exact h
    | cons op ops ih => intro s h; exact ih _ (inv_step s op h)
  exact this _ (inv_new t)

private theorem lookup_insert (k v : Nat) (l : List (Nat × Nat)) (x : Nat) :
    lookup x (insertSorted k v l) = if x = k then some v else lookup x l := by
  induction l with
  | nil => simp [insertSorted, lookup]
  | cons p l ih =>
    obtain ⟨k', v'⟩ := p
    simp only [insertSorted]
    split
    · simp only [lookup]
    · split
      · rename_i heq; subst heq
        simp only [lookup]
        split <;> rfl
      · rename_i hnlt hne
        simp only [lookup, ih]
        by_cases hx : x = k
        · subst hx; simp [hne]
        · simp [hx]

/-- what an operation says about field `f` -/
def opSets (op : Op) (f : Nat) : Option Nat :=
  match op with
  | .set b v => if f = b then some v else none
  | .guid b lo hi => if f = b + 1 then some hi else if f = b then some lo else none
  | _ => none

theorem get_step (s : UM) (op : Op) (f : Nat) :
    get (step s op) f = (match opSets op f with | some v => some v | none => get s f) := by
  cases op with
  | set b v =>
    simp only [step, get, setBit, lookup_insert, opSets]
    split <;> rfl
  | guid b lo hi =>
    simp only [step, get, setGuid, setBit, lookup_insert, opSets]
    by_cases h1 : f = b + 1
    · simp [h1]
    · by_cases h2 : f = b <;> simp [h1, h2]
  | dirtyReset => rfl
  | markFullyDirty => rfl

/-- the value last set for field `f` by an operation sequence (later operations win) -/
def lastSet (ops : List Op) (f : Nat) : Option Nat :=
  ops.foldl (fun acc op => match opSets op f with | some v => some v | none => acc) none

/-- **each getter returns the value last set for its field** (or what the state held before, if the sequence never set it);
dirty tracking operations never change what a getter returns -/
theorem get_last_set (s : UM) (ops : List Op) (f : Nat) :
    get (ops.foldl step s) f = (match lastSet ops f with | some v => some v | none => get s f) := by
  have gen : ∀ (s : UM) (acc : Option Nat),
      get (ops.foldl step s) f =
        (match ops.foldl (fun acc op => match opSets op f with | some v => some v | none => acc) none with
         | some v => some v | none => get s f) := by
    induction ops with
    | nil => intro s acc; rfl
    | cons op ops ih =>
      intro s acc
      simp only [List.foldl_cons]
      rw [ih (step s op) acc, get_step]
      -- the fold starting from `opSets op f` instead of `none`
      have key : ∀ (l : List Op) (a : Option Nat),
          l.foldl (fun acc op => match opSets op f with | some v => some v | none => acc) a =
            (match l.foldl (fun acc op => match opSets op f with | some v => some v | none => acc) none with
             | some v => some v | none => a) := by
        intro l
        induction l with
        | nil => intro a; rfl
        | cons o l ihl =>
          intro a
          simp only [List.foldl_cons]
          cases ho : opSets o f with
          | some v => simp only []; rw [ihl (some v)]; cases l.foldl _ none <;> rfl
          | none => simp only []; exact ihl a
      rw [key ops (match opSets op f with | some v => some v | none => none)]
      cases ops.foldl (fun acc op => match opSets op f with | some v => some v | none => acc) none with
      | some v => rfl
      | none => cases opSets op f <;> rfl
  exact gen s none

private theorem sorted_ext (l1 l2 : List Nat) (h1 : l1.Pairwise (· < ·)) (h2 : l2.Pairwise (· < ·)) (h : ∀ a, a ∈ l1 ↔ a ∈ l2) : l1 = l2 := by
  have n1 : l1.Nodup := h1.imp (fun hab => Nat.ne_of_lt hab)
  have n2 : l2.Nodup := h2.imp (fun hab => Nat.ne_of_lt hab)
  have hp := (List.perm_ext_iff_of_nodup n1 n2).mpr h
  exact List.Perm.eq_of_pairwise (le := (· < ·)) (fun a b _ _ hab hba => absurd hab (Nat.lt_asymm hba)) h1 h2 hp

private theorem range_sorted (n : Nat) : (List.range n).Pairwise (· < ·) := by
  simpa using List.pairwise_lt_range (n := n)

private theorem flatMap_len4 {α} (l : List α) (f : α → Bytes) (h : ∀ a, (f a).length = 4) : (l.flatMap f).length = 4 * l.length := by
  induction l with
  | nil => rfl
  | cons a l ih => simp [List.flatMap_cons, h a, ih]; omega

/-- **the reported size equals the bytes written**, for every state satisfying the invariant (every reachable state) -/
theorem size_eq_written (s : UM) (h : Inv s) : (write s).length = size s := by
  -- the keys of the values that are written = the sent fields enumerated in ascending order
  have hk : keys (s.values.filter (fun kv => sent s kv.1)) = (List.range (32 * s.nblocks)).filter (fun b => sent s b) := by
    have e1 : keys (s.values.filter (fun kv => sent s kv.1)) = (keys s.values).filter (fun b => sent s b) := by
      simp only [keys, List.filter_map]; rfl
    rw [e1]
    apply sorted_ext
    · exact h.sorted.filter _
    · exact (range_sorted _).filter _
    · intro a
      simp only [List.mem_filter, List.mem_range]
      constructor
      · rintro ⟨ha, hs⟩
        exact ⟨h.inRange a ((h.keysHeader a).mp ha), hs⟩
      · rintro ⟨_, hs⟩
        refine ⟨(h.keysHeader a).mpr ?_, hs⟩
        simp only [sent, Bool.and_eq_true, List.contains_eq_mem, decide_eq_true_eq] at hs
        exact hs.1
  have hlen : (s.values.filter (fun kv => sent s kv.1)).length = ((List.range (32 * s.nblocks)).filter (fun b => sent s b)).length := by
    rw [← hk]; simp [keys]
  simp only [write, size, List.length_append, List.length_cons, List.length_nil]
  rw [flatMap_len4 _ _ (fun i => length_encLE 4 _), flatMap_len4 _ _ (fun kv => length_encLE 4 _), hlen]
  simp

/-- reachable states never hit the writers' `assert_eq!(size, written)` -/
theorem size_eq_written_reachable (t : Nat) (ops : List Op) :
    (write (ops.foldl step (new t))).length = size (ops.foldl step (new t)) :=
  size_eq_written _ (inv_steps t ops)

/-! ### decoding a written form returns exactly the fields that were written -/

def testBit (n j : Nat) : Bool := (n / 2 ^ j) % 2 == 1

/-- partial mask: bits below `n` -/
def blockUpTo (f : Nat → Bool) (n : Nat) : Nat :=
  (List.range n).foldl (fun acc j => if f j then acc + 2 ^ j else acc) 0

theorem blockUpTo_succ (f : Nat → Bool) (n : Nat) :
    blockUpTo f (n + 1) = (if f n then blockUpTo f n + 2 ^ n else blockUpTo f n) := by
  simp [blockUpTo, List.range_succ, List.foldl_append]

theorem blockUpTo_lt (f : Nat → Bool) (n : Nat) : blockUpTo f n < 2 ^ n := by
  induction n with
  | zero => simp [blockUpTo]
  | succ n ih =>
    rw [blockUpTo_succ, Nat.pow_succ]
    split <;> omega

theorem testBit_blockUpTo (f : Nat → Bool) (n j : Nat) (hj : j < n) : testBit (blockUpTo f n) j = f j := by
  induction n with
  | zero => omega
  | succ n ih =>
    rw [blockUpTo_succ]
    have hlt := blockUpTo_lt f n
    by_cases hjn : j = n
    · subst hjn
      by_cases hf : f j = true
      · simp only [hf, if_true, testBit]
        have : (blockUpTo f j + 2 ^ j) / 2 ^ j = 1 := by
          rw [Nat.add_div_right _ (Nat.two_pow_pos j), Nat.div_eq_of_lt hlt]
        simp [this]
      · have hf' : f j = false := by simpa using hf
        simp only [hf', testBit]
        simp [Nat.div_eq_of_lt hlt]
    · have hj' : j < n := by omega
      by_cases hf : f n = true
      · simp only [hf, if_true]
        rw [← ih hj']
        simp only [testBit]
        have hsplit : 2 ^ n = 2 ^ (n - j) * 2 ^ j := by rw [← Nat.pow_add]; congr 1; omega
        rw [hsplit, Nat.add_mul_div_right _ _ (Nat.two_pow_pos j)]
        have heven : 2 ^ (n - j) % 2 = 0 := by
          have : n - j = (n - j - 1) + 1 := by omega
          rw [this, Nat.pow_succ]; omega
        congr 1
        omega
      · have hf' : f n = false := by simpa using hf
        simp only [hf']
        exact ih hj'

theorem block_eq (s : UM) (i : Nat) : block s i = blockUpTo (fun j => sent s (32 * i + j)) 32 := rfl

theorem block_lt (s : UM) (i : Nat) : block s i < 256 ^ 4 := by
  rw [block_eq]; exact blockUpTo_lt _ 32

theorem testBit_block (s : UM) (i j : Nat) (hj : j < 32) : testBit (block s i) j = sent s (32 * i + j) := by
  rw [block_eq, testBit_blockUpTo _ 32 j hj]

/-- `read_u32_le` n times -/
def readWords : Nat → Bytes → Option (List Nat × Bytes)
  | 0, bs => some ([], bs)
  | n + 1, bs => if 4 ≤ bs.length then
      match readWords n (bs.drop 4) with
      | some (ws, r) => some (decLE (bs.take 4) :: ws, r)
      | none => none
    else none

theorem readWords_flatMap (l : List Nat) (rest : Bytes) (h : ∀ x ∈ l, x < 256 ^ 4) :
    readWords l.length (l.flatMap (encLE 4) ++ rest) = some (l, rest) := by
  induction l with
  | nil => simp [readWords]
  | cons x l ih =>
    have hx := h x (by simp)
    have hl : ∀ y ∈ l, y < 256 ^ 4 := fun y hy => h y (by simp [hy])
    simp only [List.length_cons, List.flatMap_cons, List.append_assoc, readWords]
    have h4 : 4 ≤ (encLE 4 x ++ (l.flatMap (encLE 4) ++ rest)).length := by simp
    simp only [h4, if_true]
    have ht : (encLE 4 x ++ (l.flatMap (encLE 4) ++ rest)).take 4 = encLE 4 x := by
      have := take_append_length (encLE 4 x) (l.flatMap (encLE 4) ++ rest)
      simpa using this
    have hd : (encLE 4 x ++ (l.flatMap (encLE 4) ++ rest)).drop 4 = l.flatMap (encLE 4) ++ rest := by
      have := drop_append_length (encLE 4 x) (l.flatMap (encLE 4) ++ rest)
      simpa using this
    rw [ht, hd, ih hl, decLE_encLE 4 x hx]

/-- the field indices a header announces, in ascending order -/
def setBits (blocks : List Nat) : List Nat :=
  (List.range (32 * blocks.length)).filter (fun k => testBit (blocks.getD (k / 32) 0) (k % 32))

/-- `read_inner` of update_mask_common: block count, blocks, one u32 per set bit in ascending order -/
def readWire (bs : Bytes) : Option (List Nat × List (Nat × Nat) × Bytes) :=
  match bs with
  | [] => none
  | n :: rest =>
    match readWords n.toNat rest with
    | none => none
    | some (blocks, r1) =>
      let idx := setBits blocks
      match readWords idx.length r1 with
      | none => none
      | some (vals, r2) => some (blocks, idx.zip vals, r2)

theorem setBits_blocks (s : UM) : setBits ((List.range s.nblocks).map (block s)) = (List.range (32 * s.nblocks)).filter (fun b => sent s b) := by
  simp only [setBits, List.length_map, List.length_range]
  apply List.filter_congr
  intro k hk
  have hk' : k < 32 * s.nblocks := by simpa using hk
  have hi : k / 32 < s.nblocks := by omega
  have : ((List.range s.nblocks).map (block s)).getD (k / 32) 0 = block s (k / 32) := by
    simp [List.getD, hi]
  rw [this, testBit_block s (k / 32) (k % 32) (by omega)]
  congr 1
  omega

/-- the keys of the values on the wire are the sent fields in ascending order -/
theorem sent_keys (s : UM) (h : Inv s) :
    keys (s.values.filter (fun kv => sent s kv.1)) = (List.range (32 * s.nblocks)).filter (fun b => sent s b) := by
  have e1 : keys (s.values.filter (fun kv => sent s kv.1)) = (keys s.values).filter (fun b => sent s b) := by
    simp only [keys, List.filter_map]; rfl
  rw [e1]
  apply sorted_ext
  · exact h.sorted.filter _
  · exact (range_sorted _).filter _
  · intro a
    simp only [List.mem_filter, List.mem_range]
    constructor
    · rintro ⟨ha, hs⟩
      exact ⟨h.inRange a ((h.keysHeader a).mp ha), hs⟩
    · rintro ⟨_, hs⟩
      refine ⟨(h.keysHeader a).mpr ?_, hs⟩
      simp only [sent, Bool.and_eq_true, List.contains_eq_mem, decide_eq_true_eq] at hs
      exact hs.1

private theorem zip_keys_vals (l : List (Nat × Nat)) : (keys l).zip (l.map (·.2)) = l := by
  induction l with
  | nil => rfl
  | cons a l ih => simp [keys] at *; exact ih

/-- **read ∘ write**: for every state satisfying the invariant (every reachable state) whose block count fits the count byte and
whose values are 32-bit, the reader of the wire form returns the masked blocks and exactly the (index, value) pairs that
were written, in ascending index order, and consumes everything -/
theorem read_write (s : UM) (h : Inv s) (hn : s.nblocks < 256) (hv : ∀ kv ∈ s.values, kv.2 < 256 ^ 4) :
    readWire (write s) = some ((List.range s.nblocks).map (block s), s.values.filter (fun kv => sent s kv.1), []) := by
  have hw : write s = UInt8.ofNat s.nblocks :: (((List.range s.nblocks).map (block s)).flatMap (encLE 4)
      ++ (((s.values.filter (fun kv => sent s kv.1)).map (·.2)).flatMap (encLE 4) ++ [])) := by
    simp [write, List.flatMap_map]
  rw [hw]
  simp only [readWire]
  have hcnt : (UInt8.ofNat s.nblocks).toNat = s.nblocks := by
    simp [UInt8.toNat_ofNat]; omega
  rw [hcnt]
  have hb := readWords_flatMap ((List.range s.nblocks).map (block s))
    (((s.values.filter (fun kv => sent s kv.1)).map (·.2)).flatMap (encLE 4) ++ [])
    (by intro x hx; obtain ⟨i, _, rfl⟩ := List.mem_map.mp hx; exact block_lt s i)
  simp only [List.length_map, List.length_range] at hb
  rw [hb]
  simp only
  rw [setBits_blocks, ← sent_keys s h]
  have hlen : (keys (s.values.filter (fun kv => sent s kv.1))).length = ((s.values.filter (fun kv => sent s kv.1)).map (·.2)).length := by
    simp [keys]
  have hvals := readWords_flatMap ((s.values.filter (fun kv => sent s kv.1)).map (·.2)) []
    (by intro x hx; obtain ⟨kv, hkv, rfl⟩ := List.mem_map.mp hx; exact hv kv (List.mem_filter.mp hkv).1)
  rw [hlen, hvals]
  simp only [zip_keys_vals]

/-- … in particular on every state reachable by typed setters with 32-bit values (the setters take `u32`/`i32`/`f32`/`Guid`
halves) while the mask has fewer than 256 blocks (the largest object, a TBC player, has 50) -/
theorem read_write_reachable (t : Nat) (ops : List Op) (hn : (ops.foldl step (new t)).nblocks < 256)
    (hv : ∀ kv ∈ (ops.foldl step (new t)).values, kv.2 < 256 ^ 4) :
    readWire (write (ops.foldl step (new t))) =
      some ((List.range (ops.foldl step (new t)).nblocks).map (block (ops.foldl step (new t))),
            (ops.foldl step (new t)).values.filter (fun kv => sent (ops.foldl step (new t)) kv.1), []) :=
  read_write _ (inv_steps t ops) hn hv

example : readWire (write (step (step (new 25) (.guid 0 4 0)) (.set 22 100))) =
    some ([0x400007], [(0, 4), (1, 0), (2, 25), (22, 100)], []) := by rfl

/-! ### non-vacuity -/
example : write (step (step (new 25) (.guid 0 4 0)) (.set 22 100)) =
    [1, 0x07, 0x00, 0x40, 0x00, 4, 0, 0, 0, 0, 0, 0, 0, 25, 0, 0, 0, 100, 0, 0, 0] := by rfl
example : size (step (step (new 25) (.guid 0 4 0)) (.set 22 100)) = 21 := by rfl

end WowVerif.UpdateMask

open WowVerif.UpdateMask in
#print axioms inv_steps
open WowVerif.UpdateMask in
#print axioms get_last_set
open WowVerif.UpdateMask in
#print axioms size_eq_written_reachable
open WowVerif.UpdateMask in
#print axioms read_write
