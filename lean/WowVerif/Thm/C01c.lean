/-
The per-enumerator normal form (Model/SemNorm.lean) is the same DECODER as the program it was computed from — for every program,
every environment that respects the recorded enum domains, and every input (`expand_decode`: whole containers, no side condition).

Together with `readerMatches_sound` (Thm/C01b.lean): when the driver answers `progeq … = same`, the program translated from the
generated Rust reader decodes every byte string exactly as the wowm definition's program does.
-/
import WowVerif.Thm.C01b
import WowVerif.Thm.C01
namespace WowVerif.Sem

/-- every variable with a recorded domain is bound to one of its declared values -/
def EnvOk (dom : Dom) (env : Env) : Prop :=
  ∀ var vals, dom.lookup var = some vals → ∃ x, env.get var = some x ∧ x ∈ vals

theorem envOk_nil (env : Env) : EnvOk [] env := by
  intro var vals h; simp [List.lookup] at h

theorem lookup_filter (p : Nat → Bool) (dom : Dom) (var : Nat) (vals : List Nat)
    (h : (dom.filter (fun q => p q.1)).lookup var = some vals) : p var = true ∧ dom.lookup var = some vals := by
  induction dom with
  | nil => simp at h
  | cons q rest ih =>
    obtain ⟨k, v⟩ := q
    simp only [List.filter] at h
    by_cases hp : p k = true
    · simp only [hp] at h
      simp only [List.lookup] at h ⊢
      by_cases hk : var = k
      · subst hk; simp at h ⊢; exact ⟨hp, h⟩
      · have : (var == k) = false := by simpa using hk
        simp only [this] at h ⊢
        exact ih h
    · have hp' : p k = false := by simpa using hp
      simp only [hp'] at h
      have := ih h
      refine ⟨this.1, ?_⟩
      simp only [List.lookup]
      by_cases hk : var = k
      · subst hk; rw [hp'] at this; exact absurd this.1 (by simp)
      · have : (var == k) = false := by simpa using hk
        simp only [this]; exact (ih h).2

theorem get_bind_ne (env : Env) (id var : Nat) (v : Val) (h : var ≠ id) : (env.bind id v).get var = env.get var := by
  unfold Env.bind Env.get
  cases v <;> simp [List.lookup]
  have : (var == id) = false := by simpa using h
  simp [this]

/-! ### frame: a member only changes the variables it binds -/
mutual
theorem frameM : ∀ (m : Member) (env : Env) (bs : Bytes) (v : Val) (env' : Env) (r : Bytes),
    decMember m env bs = .ok (v, env', r) → ∀ var, var ∉ boundM m → env'.get var = env.get var
  | .field id role t, env, bs, v, env', r, h, var, hv => by
    simp only [decMember] at h
    split at h
    · rename_i v0 r0 _
      simp only [Except.ok.injEq, Prod.mk.injEq] at h
      obtain ⟨_, h2, _⟩ := h
      subst h2
      exact get_bind_ne env id var v0 (by simpa [boundM] using hv)
    · simp at h
  | .ifs var' bsx, env, bs, v, env', r, h, var, hv => by
    simp only [decMember] at h
    split at h
    · simp at h
    · rename_i x _
      split at h
      · rename_i vs e1 r1 hb
        simp only [Except.ok.injEq, Prod.mk.injEq] at h
        obtain ⟨_, h2, _⟩ := h
        subst h2
        exact frameB bsx x env bs vs e1 r1 hb var (by simpa [boundM] using hv)
      · simp at h
  | .endless id t, env, bs, v, env', r, h, var, hv => by
    simp only [decMember] at h
    split at h
    · simp only [Except.ok.injEq, Prod.mk.injEq] at h
      obtain ⟨_, h2, _⟩ := h
      subst h2; rfl
    · simp at h
  | .optional ms, env, bs, v, env', r, h, var, hv => by
    simp only [decMember] at h
    split at h
    · simp only [Except.ok.injEq, Prod.mk.injEq] at h
      obtain ⟨_, h2, _⟩ := h
      subst h2; rfl
    · split at h
      · rename_i vs e1 r1 hb
        simp only [Except.ok.injEq, Prod.mk.injEq] at h
        obtain ⟨_, h2, _⟩ := h
        subst h2
        exact frameMs ms env bs vs e1 r1 hb var (by simpa [boundM] using hv)
      · simp at h
theorem frameB : ∀ (bsx : Branches) (x : Nat) (env : Env) (bs : Bytes) (vs : List Val) (env' : Env) (r : Bytes),
    decBranches bsx x env bs = .ok (vs, env', r) → ∀ var, var ∉ boundB bsx → env'.get var = env.get var
  | .els ms, x, env, bs, vs, env', r, h, var, hv => by
    simp only [decBranches] at h
    exact frameMs ms env bs vs env' r h var (by simpa [boundB] using hv)
  | .cons c ms rest, x, env, bs, vs, env', r, h, var, hv => by
    simp only [decBranches] at h
    simp only [boundB, List.mem_append, not_or] at hv
    split at h
    · exact frameMs ms env bs vs env' r h var hv.1
    · exact frameB rest x env bs vs env' r h var hv.2
theorem frameMs : ∀ (ms : Members) (env : Env) (bs : Bytes) (vs : List Val) (env' : Env) (r : Bytes),
    decMembers ms env bs = .ok (vs, env', r) → ∀ var, var ∉ boundMs ms → env'.get var = env.get var
  | .nil, env, bs, vs, env', r, h, var, hv => by
    simp only [decMembers, Except.ok.injEq, Prod.mk.injEq] at h
    obtain ⟨_, h2, _⟩ := h
    subst h2; rfl
  | .cons m ms, env, bs, vs, env', r, h, var, hv => by
    simp only [decMembers] at h
    simp only [boundMs, List.mem_append, not_or] at hv
    split at h
    · simp at h
    · rename_i v1 e1 r1 hm
      split at h
      · simp at h
      · rename_i vs2 e2 r2 hms
        simp only [Except.ok.injEq, Prod.mk.injEq] at h
        obtain ⟨_, h2, _⟩ := h
        subst h2
        rw [frameMs ms e1 r1 vs2 e2 r2 hms var hv.2, frameM m env bs v1 e1 r1 hm var hv.1]
end

/-- a decoded enum leaf is one of the declared values -/
theorem decLeaf_enum_mem (k : Nat) (e : Endian) (vals : List Nat) (bs : Bytes) (v : Val) (r : Bytes)
    (h : decLeaf (.enumT k e vals) bs = .ok (v, r)) : ∃ n, v = .nat n ∧ n ∈ vals := by
  simp only [decLeaf] at h
  split at h
  · rename_i n r0 _
    split at h
    · rename_i hc
      simp only [Except.ok.injEq, Prod.mk.injEq] at h
      exact ⟨n, h.1.symm, by simpa using hc⟩
    · simp at h
  · simp at h

/-- the recorded domains stay true along a member list -/
theorem after_ok (dom : Dom) (m : Member) (env : Env) (bs : Bytes) (v : Val) (env1 : Env) (r : Bytes)
    (hok : EnvOk dom env) (h : decMember m env bs = .ok (v, env1, r)) : EnvOk (dom.after m) env1 := by
  have drop_case : ∀ ids : List Nat, (∀ var, var ∉ ids → env1.get var = env.get var) → EnvOk (dom.dropAll ids) env1 := by
    intro ids hfr var vals hl
    have := lookup_filter (fun k => !ids.contains k) dom var vals hl
    obtain ⟨hp, hd⟩ := this
    obtain ⟨x, hx, hm⟩ := hok var vals hd
    refine ⟨x, ?_, hm⟩
    rw [hfr var (by simpa using hp)]; exact hx
  cases m with
  | field id role t =>
    have hfr := frameM (.field id role t) env bs v env1 r h
    have generic : EnvOk (dom.drop id) env1 := by
      intro var vals hl
      have := lookup_filter (fun k => k != id) dom var vals hl
      obtain ⟨hp, hd⟩ := this
      obtain ⟨x, hx, hm⟩ := hok var vals hd
      refine ⟨x, ?_, hm⟩
      rw [hfr var (by simpa [boundM] using hp)]; exact hx
    have enumCase : ∀ k e vals, t = .leaf (.enumT k e vals) → EnvOk ((id, vals) :: dom) env1 := by
      intro k e vals ht
      subst ht
      simp only [decMember, decTy] at h
      split at h
      · rename_i v0 r0 hd
        simp only [Except.ok.injEq, Prod.mk.injEq] at h
        obtain ⟨hv, he, _⟩ := h
        obtain ⟨n, hn, hmem⟩ := decLeaf_enum_mem k e vals bs v0 r0 hd
        subst hn
        intro var vals' hl
        simp only [List.lookup] at hl
        by_cases hk : var = id
        · subst hk
          simp at hl
          subst hl
          refine ⟨n, ?_, hmem⟩
          rw [← he]; simp [Env.bind, Env.get]
        · have hk' : (var == id) = false := by simpa using hk
          simp only [hk'] at hl
          obtain ⟨x, hx, hm⟩ := hok var vals' hl
          refine ⟨x, ?_, hm⟩
          rw [← he, get_bind_ne env id var _ hk]; exact hx
      · simp at h
    cases role with
    | selfSize => exact generic
    | plain =>
      cases t with
      | leaf l =>
        cases l with
        | enumT k e vals => exact enumCase k e vals rfl
        | _ => exact generic
      | _ => exact generic
    | const c =>
      cases t with
      | leaf l =>
        cases l with
        | enumT k e vals => exact enumCase k e vals rfl
        | _ => exact generic
      | _ => exact generic
  | ifs var bsx => exact drop_case _ (frameM _ env bs v env1 r h)
  | endless id t => exact drop_case _ (frameM _ env bs v env1 r h)
  | optional ms => exact drop_case _ (frameM _ env bs v env1 r h)

/-! ### the normal form decodes like the program -/
mutual
theorem expTy : ∀ (t : Ty) (env : Env) (bs : Bytes), decTy (expandTy t) env bs = decTy t env bs
  | .leaf l, env, bs => by simp [expandTy]
  | .struct ms, env, bs => by
    simp only [expandTy, decTy]; rw [expMs ms [] [] bs (envOk_nil [])]
  | .arrFixed n t, env, bs => by
    simp only [expandTy, decTy]
    rw [show decTy (expandTy t) env = decTy t env from funext (expTy t env)]
  | .arrVar v t, env, bs => by
    simp only [expandTy, decTy]
    rw [show decTy (expandTy t) env = decTy t env from funext (expTy t env)]
theorem expM : ∀ (m : Member) (dom : Dom) (env : Env) (bs : Bytes), EnvOk dom env →
    decMember (expandM dom m) env bs = decMember m env bs
  | .field id r t, dom, env, bs, h => by simp only [expandM, decMember, expTy t env bs]
  | .ifs var bsx, dom, env, bs, h => by
    simp only [expandM]
    cases hl : dom.lookup var with
    | none =>
      simp only [decMember]
      cases env.get var with
      | none => rfl
      | some x => simp only [expB bsx dom x env bs h]
    | some vals =>
      obtain ⟨x, hx, hm⟩ := h var vals hl
      simp only [decMember, hx, decBranches_armsFor _ vals x env bs hm, expB bsx dom x env bs h]
  | .endless id t, dom, env, bs, h => by
    simp only [expandM, decMember]
    rw [show decTy (expandTy t) env = decTy t env from funext (expTy t env)]
  | .optional ms, dom, env, bs, h => by
    simp only [expandM, decMember, expMs ms dom env bs h]
theorem expB : ∀ (bsx : Branches) (dom : Dom) (x : Nat) (env : Env) (inp : Bytes), EnvOk dom env →
    decBranches (expandB dom bsx) x env inp = decBranches bsx x env inp
  | .els ms, dom, x, env, inp, h => by simp only [expandB, decBranches, expMs ms dom env inp h]
  | .cons c ms rest, dom, x, env, inp, h => by
    simp only [expandB, decBranches, expMs ms dom env inp h, expB rest dom x env inp h]
theorem expMs : ∀ (ms : Members) (dom : Dom) (env : Env) (bs : Bytes), EnvOk dom env →
    decMembers (expandMs dom ms) env bs = decMembers ms env bs
  | .nil, dom, env, bs, h => by simp [expandMs, decMembers]
  | .cons m ms, dom, env, bs, h => by
    simp only [expandMs, decMembers, expM m dom env bs h]
    cases hm : decMember m env bs with
    | error e => rfl
    | ok p =>
      obtain ⟨v, env1, r⟩ := p
      simp only [expMs ms (dom.after m) env1 r (after_ok dom m env bs v env1 r h hm)]
end

/-- **the normal form is the same decoder** — every container, every byte string -/
theorem expand_decode (c : Members) (bs : Bytes) : decode (expandMs [] c) bs = decode c bs := by
  simp only [decode, expMs c [] [] bs (envOk_nil [])]

/-- what `progeq = same` gives: the program translated from the Rust reader decodes every byte string as the definition's program -/
theorem reader_decodes_as_spec (spec rust : Members) (h : readerMatches spec rust = true) (bs : Bytes) :
    decode rust bs = decode spec bs := by
  rw [readerMatches_sound spec rust h, expand_decode]

/-- C01 for the translated reader: it reads every canonical encoding of the definition back to the encoded value -/
theorem reader_reads_canonical (spec rust : Members) (h : readerMatches spec rust = true) (hw : wfMs spec = true)
    (vs : List Val) (b : Bytes) (he : encode spec vs = some b) : decode rust b = .ok vs := by
  rw [reader_decodes_as_spec spec rust h, decode_encode spec vs b hw he]

/-! ### non-vacuity -/
def exSpec : Members :=
  .cons (.field 0 .plain (.leaf (.enumT 1 .le [0, 1, 12]))) (.cons (.ifs 0 exChain) .nil)
example : decode (expandMs [] exSpec) [12, 7] = decode exSpec [12, 7] := expand_decode _ _
example : decode exSpec [12, 7] = .ok [.nat 12, .tuple [.nat 7]] := by rfl
example : decode (expandMs [] exSpec) [1, 1, 2, 3, 4, 5, 6, 7, 8] = .ok [.nat 1, .tuple [.nat 0x0807060504030201]] := by rfl

end WowVerif.Sem

open WowVerif.Sem in
#print axioms frameMs
open WowVerif.Sem in
#print axioms after_ok
open WowVerif.Sem in
#print axioms expMs
open WowVerif.Sem in
#print axioms expand_decode
open WowVerif.Sem in
#print axioms reader_decodes_as_spec
open WowVerif.Sem in
#print axioms reader_reads_canonical
