/-
C01 — every message decodes from and re-encodes to the bytes its wowm definition says (specification side).

For EVERY closed container (any nesting of structs, fixed / counted / endless arrays, if / else-if / else over enums and
flags, optional tails, constants, self.size fields, strings, packed guids, enums with upcasts …) and EVERY value:
the specification decoder reads back exactly the value from the specification encoding and consumes exactly the
encoding (`decode_encode`); inside a stream the same holds with arbitrary following bytes (`rtMembers`, `rtTy`).
Hence the set of canonical encodings of a definition is well defined and uniquely readable, and the correspondence
check (checks/c01.py) compares the libraries against it.
-/
import WowVerif.Model.Sem
import WowVerif.Lemmas.SemLeaf
import WowVerif.Lemmas.SemIter
namespace WowVerif.Sem

def isSelfSize : Member → Bool
  | .field _ .selfSize _ => true
  | _ => false

theorem encMembers_cons_general (m : Member) (ms : Members) (env : Env) (v : Val) (vs : List Val)
    (hm : isSelfSize m = false) :
    encMembers (.cons m ms) env (v :: vs) =
      (match encMember m env v with
       | Option.none => Option.none
       | some (b1, env1) => match encMembers ms env1 vs with
           | Option.none => Option.none
           | some (b2, env2) => some (b1 ++ b2, env2)) := by
  cases m with
  | field id role t =>
    cases role with
    | plain => simp only [encMembers]; rfl
    | const c => simp only [encMembers]; rfl
    | selfSize => simp [isSelfSize] at hm
  | ifs var bs => simp only [encMembers]; rfl
  | endless id t => simp only [encMembers]; rfl
  | optional ms' => simp only [encMembers]; rfl

private theorem wfMs_cons (m : Member) (ms : Members) (h : wfMs (.cons m ms) = true) :
    wfM m = true ∧ wfMs ms = true ∧ (ms ≠ .nil → tailFreeM m = true) := by
  cases ms with
  | nil => simp only [wfMs] at h; exact ⟨h, rfl, fun c => absurd rfl c⟩
  | cons m' ms' =>
    simp only [wfMs, Bool.and_eq_true] at h
    exact ⟨h.1.2, h.2, fun _ => h.1.1⟩

theorem encMembers_nil (env : Env) (vs : List Val) (b : Bytes) (env' : Env)
    (h : encMembers .nil env vs = some (b, env')) : vs = [] ∧ b = [] ∧ env' = env := by
  cases vs with
  | nil => simp only [encMembers, Option.some.injEq, Prod.mk.injEq] at h; exact ⟨rfl, h.1.symm, h.2.symm⟩
  | cons v vs => simp [encMembers] at h

mutual
/-- a type decodes its own encoding and leaves the following bytes untouched -/
theorem rtTy : ∀ (t : Ty) (env : Env) (v : Val) (b rest : Bytes), wfTy t = true →
    encTy t env v = some b → decTy t env (b ++ rest) = .ok (v, rest)
  | .leaf l, env, v, b, rest, _, h => by
      simp only [encTy] at h
      simp only [decTy]
      exact decLeaf_encLeaf l v b rest h
  | .struct ms, env, v, b, rest, hw, h => by
      cases v with
      | tuple vs =>
        simp only [encTy] at h
        cases hm : encMembers ms [] vs with
        | none => simp [hm] at h
        | some p =>
          obtain ⟨b', env'⟩ := p
          simp only [hm, Option.map_some, Option.some.injEq] at h
          subst h
          simp only [wfTy, Bool.and_eq_true] at hw
          have := rtMembers ms [] vs b' env' rest hw.2 (Or.inl hw.1) hm
          simp only [decTy, this]
      | nat n => simp [encTy] at h
      | bytes s => simp [encTy] at h
      | list l => simp [encTy] at h
      | none => simp [encTy] at h
  | .arrFixed n t, env, v, b, rest, hw, h => by
      cases v with
      | list vs =>
        simp only [encTy] at h
        split at h
        · rename_i hlen
          simp only [wfTy] at hw
          have := iterDec_iterEnc (encTy t env) (decTy t env) vs (fun v b rest _ hv => rtTy t env v b rest hw hv) b rest h
          simp only [decTy, ← hlen, this]
        · cases h
      | nat n => simp [encTy] at h
      | bytes s => simp [encTy] at h
      | tuple l => simp [encTy] at h
      | none => simp [encTy] at h
  | .arrVar var t, env, v, b, rest, hw, h => by
      cases v with
      | list vs =>
        simp only [encTy] at h
        split at h
        · rename_i hlen
          simp only [wfTy] at hw
          have := iterDec_iterEnc (encTy t env) (decTy t env) vs (fun v b rest _ hv => rtTy t env v b rest hw hv) b rest h
          simp only [decTy, hlen, this]
        · cases h
      | nat n => simp [encTy] at h
      | bytes s => simp [encTy] at h
      | tuple l => simp [encTy] at h
      | none => simp [encTy] at h

theorem rtMember : ∀ (m : Member) (env : Env) (v : Val) (b : Bytes) (env' : Env) (rest : Bytes), wfM m = true →
    (tailFreeM m = true ∨ rest = []) → encMember m env v = some (b, env') →
    decMember m env (b ++ rest) = .ok (v, env', rest)
  | .field id role t, env, v, b, env', rest, hw, _, h => by
      simp only [encMember] at h
      cases he : encTy t env v with
      | none => simp [he] at h
      | some b1 =>
        simp only [he, Option.map_some, Option.ite_none_right_eq_some, Option.some.injEq, Prod.mk.injEq] at h
        obtain ⟨_, h1, h2⟩ := h
        subst h1; subst h2
        simp only [wfM] at hw
        simp only [decMember, rtTy t env v b1 rest hw he]
  | .ifs var bs, env, v, b, env', rest, hw, ht, h => by
      cases v with
      | tuple vs =>
        simp only [encMember] at h
        cases hx : env.get var with
        | none => simp [hx] at h
        | some x =>
          simp only [hx] at h
          simp only [wfM] at hw
          have ht' : tailFreeB bs = true ∨ rest = [] := by
            cases ht with
            | inl t => exact Or.inl (by simpa [tailFreeM] using t)
            | inr r => exact Or.inr r
          have := rtBranches bs x env vs b env' rest hw ht' h
          simp only [decMember, hx, this]
      | nat n => simp [encMember] at h
      | bytes s => simp [encMember] at h
      | list l => simp [encMember] at h
      | none => simp [encMember] at h
  | .endless id t, env, v, b, env', rest, hw, ht, h => by
      have hr : rest = [] := by
        cases ht with
        | inl t => simp [tailFreeM] at t
        | inr r => exact r
      subst hr
      cases v with
      | list vs =>
        simp only [encMember] at h
        cases he : iterEnc1 (encTy t env) vs with
        | none => simp [he] at h
        | some b1 =>
          simp only [he, Option.map_some, Option.some.injEq, Prod.mk.injEq] at h
          obtain ⟨h1, h2⟩ := h
          subst h1; subst h2
          simp only [wfM] at hw
          have := iterDecAll_iterEnc1 (encTy t env) (decTy t env) vs (fun v b rest _ hv => rtTy t env v b rest hw hv) b1 he
            b1.length (Nat.le_refl _)
          simp only [decMember, List.append_nil, this]
      | nat n => simp [encMember] at h
      | bytes s => simp [encMember] at h
      | tuple l => simp [encMember] at h
      | none => simp [encMember] at h
  | .optional ms, env, v, b, env', rest, hw, ht, h => by
      have hr : rest = [] := by
        cases ht with
        | inl t => simp [tailFreeM] at t
        | inr r => exact r
      subst hr
      cases v with
      | none =>
        simp only [encMember, Option.some.injEq, Prod.mk.injEq] at h
        obtain ⟨h1, h2⟩ := h
        subst h1; subst h2
        simp [decMember]
      | tuple vs =>
        simp only [encMember] at h
        cases he : encMembers ms env vs with
        | none => simp [he] at h
        | some p =>
          obtain ⟨b1, e1⟩ := p
          cases b1 with
          | nil => simp [he] at h
          | cons x b1 =>
            simp only [he, Option.some.injEq, Prod.mk.injEq] at h
            obtain ⟨h1, h2⟩ := h
            subst h1; subst h2
            simp only [wfM] at hw
            have := rtMembers ms env vs (x :: b1) e1 [] hw (Or.inr rfl) he
            simp only [List.append_nil] at this
            simp [decMember, this]
      | nat n => simp [encMember] at h
      | bytes s => simp [encMember] at h
      | list l => simp [encMember] at h

theorem rtBranches : ∀ (bs : Branches) (x : Nat) (env : Env) (vs : List Val) (b : Bytes) (env' : Env) (rest : Bytes),
    wfB bs = true → (tailFreeB bs = true ∨ rest = []) → encBranches bs x env vs = some (b, env') →
    decBranches bs x env (b ++ rest) = .ok (vs, env', rest)
  | .els ms, x, env, vs, b, env', rest, hw, ht, h => by
      simp only [encBranches] at h
      simp only [wfB] at hw
      have ht' : tailFree ms = true ∨ rest = [] := by
        cases ht with
        | inl t => exact Or.inl (by simpa [tailFreeB] using t)
        | inr r => exact Or.inr r
      simp only [decBranches, rtMembers ms env vs b env' rest hw ht' h]
  | .cons c ms bs, x, env, vs, b, env', rest, hw, ht, h => by
      simp only [encBranches] at h
      simp only [wfB, Bool.and_eq_true] at hw
      simp only [decBranches]
      split at h
      · rename_i hc
        have ht' : tailFree ms = true ∨ rest = [] := by
          cases ht with
          | inl t => simp only [tailFreeB, Bool.and_eq_true] at t; exact Or.inl t.1
          | inr r => exact Or.inr r
        rw [if_pos hc]
        exact rtMembers ms env vs b env' rest hw.1 ht' h
      · rename_i hc
        have ht' : tailFreeB bs = true ∨ rest = [] := by
          cases ht with
          | inl t => simp only [tailFreeB, Bool.and_eq_true] at t; exact Or.inl t.2
          | inr r => exact Or.inr r
        rw [if_neg hc]
        exact rtBranches bs x env vs b env' rest hw.2 ht' h

/-- a member list decodes its own encoding; with arbitrary following bytes when it has no endless array / optional,
and on the exact body otherwise -/
theorem rtMembers : ∀ (ms : Members) (env : Env) (vs : List Val) (b : Bytes) (env' : Env) (rest : Bytes),
    wfMs ms = true → (tailFree ms = true ∨ rest = []) → encMembers ms env vs = some (b, env') →
    decMembers ms env (b ++ rest) = .ok (vs, env', rest)
  | .nil, env, vs, b, env', rest, _, _, h => by
      obtain ⟨h1, h2, h3⟩ := encMembers_nil env vs b env' h
      subst h1; subst h2; subst h3
      simp [decMembers]
  | .cons m ms, env, vs, b, env', rest, hw, ht, h => by
      obtain ⟨hwm, hwms, htm⟩ := wfMs_cons m ms hw
      cases vs with
      | nil => cases m with
        | field id role t => cases role <;> simp [encMembers] at h
        | ifs _ _ => simp [encMembers] at h
        | endless _ _ => simp [encMembers] at h
        | optional _ => simp [encMembers] at h
      | cons v vs =>
        have htms : tailFree ms = true ∨ rest = [] := by
          cases ht with
          | inl t => simp only [tailFree, Bool.and_eq_true] at t; exact Or.inl t.2
          | inr r => exact Or.inr r
        by_cases hss : isSelfSize m = true
        · -- `size = self.size` field
          cases m with
          | field id role t =>
            cases role with
            | selfSize =>
              simp only [encMembers] at h
              cases he2 : encMembers ms (env.bind id v) vs with
              | none => simp [he2] at h
              | some p =>
                obtain ⟨b2, env2⟩ := p
                simp only [he2] at h
                cases v with
                | nat n =>
                  simp only at h
                  split at h
                  · cases he1 : encTy t env (.nat n) with
                    | none => simp [he1] at h
                    | some b1 =>
                      simp only [he1, Option.map_some, Option.some.injEq, Prod.mk.injEq] at h
                      obtain ⟨h1, h2⟩ := h
                      subst h1; subst h2
                      simp only [wfM] at hwm
                      have e1 := rtTy t env (.nat n) b1 (b2 ++ rest) hwm he1
                      have e2 := rtMembers ms (env.bind id (.nat n)) vs b2 env2 rest hwms htms he2
                      simp only [decMembers, decMember, List.append_assoc, e1, e2]
                  · cases h
                | bytes s => simp at h
                | tuple l => simp at h
                | list l => simp at h
                | none => simp at h
            | plain => simp [isSelfSize] at hss
            | const c => simp [isSelfSize] at hss
          | ifs _ _ => simp [isSelfSize] at hss
          | endless _ _ => simp [isSelfSize] at hss
          | optional _ => simp [isSelfSize] at hss
        · have hss' : isSelfSize m = false := by simpa using hss
          rw [encMembers_cons_general m ms env v vs hss'] at h
          cases he1 : encMember m env v with
          | none => simp [he1] at h
          | some p1 =>
            obtain ⟨b1, env1⟩ := p1
            simp only [he1] at h
            cases he2 : encMembers ms env1 vs with
            | none => simp [he2] at h
            | some p2 =>
              obtain ⟨b2, env2⟩ := p2
              simp only [he2, Option.some.injEq, Prod.mk.injEq] at h
              obtain ⟨h1, h2⟩ := h
              subst h1; subst h2
              have htm' : tailFreeM m = true ∨ b2 ++ rest = [] := by
                by_cases hn : ms = .nil
                · subst hn
                  obtain ⟨_, hb2, _⟩ := encMembers_nil env1 vs b2 env2 he2
                  subst hb2
                  cases ht with
                  | inl t => simp only [tailFree, Bool.and_eq_true] at t; exact Or.inl t.1
                  | inr r => exact Or.inr (by simp [r])
                · exact Or.inl (htm hn)
              have e1 := rtMember m env v b1 env1 (b2 ++ rest) hwm htm' he1
              have e2 := rtMembers ms env1 vs b2 env2 rest hwms htms he2
              simp only [decMembers, List.append_assoc, e1, e2]
end

/-- **C01 (specification side): decode ∘ encode = id on every well-formed container and every value**, and the decoder
consumes exactly the encoding. -/
theorem decode_encode (c : Members) (vs : List Val) (b : Bytes) (hw : wfMs c = true) (h : encode c vs = some b) :
    decode c b = .ok vs := by
  unfold encode at h
  cases he : encMembers c [] vs with
  | none => simp [he] at h
  | some p =>
    obtain ⟨b', env'⟩ := p
    simp only [he, Option.map_some, Option.some.injEq] at h
    subst h
    have := rtMembers c [] vs b' env' [] hw (Or.inr rfl) he
    simp only [List.append_nil] at this
    simp [decode, this]

/-- encodings are unambiguous: two values with the same encoding are equal -/
theorem encode_inj (c : Members) (v w : List Val) (b : Bytes) (hw : wfMs c = true)
    (hv : encode c v = some b) (hw' : encode c w = some b) : v = w := by
  have h1 := decode_encode c v b hw hv
  have h2 := decode_encode c w b hw hw'
  rw [h1] at h2
  injection h2

/-! ### non-vacuity: a container with a counted array of structs, an enum-steered if / else and an endless tail -/
def exC : Members :=
  .cons (.field 0 .plain (.leaf (.enumT 1 .le [0, 1, 2])))
  (.cons (.field 1 .plain (.leaf (.int 1 .le)))
  (.cons (.field 2 .plain (.arrVar 1 (.struct (.cons (.field 0 .plain (.leaf .packedGuid)) (.cons (.field 1 .plain (.leaf .cstring)) .nil)))))
  (.cons (.ifs 0 (.cons (.eq [1]) (.cons (.field 3 .plain (.leaf (.int 2 .be))) .nil) (.els (.cons (.field 4 (.const 7) (.leaf (.int 1 .le))) .nil))))
  (.cons (.endless 5 (.leaf (.int 2 .le))) .nil))))
def exV : List Val :=
  [.nat 1, .nat 2, .list [.tuple [.nat 0x0100000000000005, .bytes [97, 98]], .tuple [.nat 0, .bytes []]], .tuple [.nat 0x1234], .list [.nat 1, .nat 513]]
example : wfMs exC = true := by decide
example : encode exC exV = some [1, 2, 0x81, 5, 1, 97, 98, 0, 0, 0, 0x12, 0x34, 1, 0, 1, 2] := by rfl
example : decode exC [1, 2, 0x81, 5, 1, 97, 98, 0, 0, 0, 0x12, 0x34, 1, 0, 1, 2] = .ok exV := by
  exact decode_encode exC exV _ (by decide) (by rfl)

end WowVerif.Sem

open WowVerif.Sem in
#print axioms rtTy
open WowVerif.Sem in
#print axioms rtMembers
open WowVerif.Sem in
#print axioms decode_encode
open WowVerif.Sem in
#print axioms encode_inj
