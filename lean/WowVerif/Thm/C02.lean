/-
C02 — framing is exact; streams stay aligned.  Theorems about the code-shaped model `Model/Frame.lean`, for EVERY body
length in range (unbounded `Nat` reasoning, not a sweep), every expansion, direction and reader entry point, and every
finite sequence of messages.
-/
import WowVerif.Lemmas.Frame
namespace WowVerif.Frame

def opBound (d : Dir) : Nat := match d with | .client => 4294967296 | .server => 65536

/-- header length the property prescribes -/
def headerLen (e : Exp) (d : Dir) (bodyLen : Nat) : Nat :=
  match e, d with
  | .wrath, .server => if bodyLen + 2 > 0x7FFF then 5 else 4
  | _, .server => 4
  | _, .client => 6

/-- **C02 (writer, partial: code range)** — for every body length the code can write (`maxBodyCode`), writing completes,
the frame is header ++ body with the prescribed header length (the 3-byte size form exactly when a Wrath server message
needs it), and the header carries the opcode and a size equal to the bytes that follow the size field
(= opcode length + body length): stated as "every reader entry point parses (opcode, body length) back". -/
theorem write_ok_partial (e : Exp) (d : Dir) (api : Api) (op : Nat) (body rest : Bytes)
    (hb : body.length ≤ maxBodyCode e d) (hop : op < opBound d) :
    ∃ hdr, writeFrame e d op body = .ok (hdr ++ body) ∧ hdr.length = headerLen e d body.length ∧
      readHeader api e d (hdr ++ body ++ rest) = .ok (op, body.length, body ++ rest) := by
  cases d with
  | client =>
    have hb' : body.length ≤ 65529 := by cases e <;> simpa [maxBodyCode] using hb
    refine ⟨clientHeader op (body.length + 6), writeFrame_client e op body hb', ?_, ?_⟩
    · cases e <;> simp [clientHeader, headerLen]
    · rw [List.append_assoc]; exact readHeader_client api e op body.length _ (by omega) hop
  | server =>
    simp only [opBound] at hop
    by_cases hw : e = .wrath
    · subst hw
      have hb' : body.length ≤ 8388605 := by simpa [maxBodyCode] using hb
      refine ⟨wrathServerHeader op (wrathServerSize body.length), writeFrame_wrath_server op body hb', ?_, ?_⟩
      · by_cases hl : body.length + 2 > 32767
        · obtain ⟨h1, h2⟩ := wrath_large op body.length hl
          rw [h1, h2]; simp [headerLen, hl]
        · obtain ⟨h1, h2⟩ := wrath_small op body.length hl
          rw [h1, h2]; simp [headerLen, hl]
      · by_cases hl : body.length + 2 > 32767
        · obtain ⟨h1, h2⟩ := wrath_large op body.length hl
          rw [h1, h2, List.append_assoc]
          exact readHeader_large api op body.length _ (by omega) hop
        · obtain ⟨h1, h2⟩ := wrath_small op body.length hl
          rw [h1, h2, List.append_assoc]
          exact readHeader_small api .wrath op body.length _ (by omega) (by intro; omega) hop
    · have hb' : body.length ≤ 65531 := by
        cases e <;> first | (exact absurd rfl hw) | simpa [maxBodyCode] using hb
      refine ⟨_, writeFrame_small_server e hw op body hb', ?_, ?_⟩
      · cases e <;> first | (exact absurd rfl hw) | simp [headerLen]
      · rw [List.append_assoc]
        exact readHeader_small api e op body.length _ (by omega) (fun h => absurd h hw) hop

/-- **C02 (reader)** — every reader consumes exactly the bytes the header announces and returns the written message. -/
theorem read_write (e : Exp) (d : Dir) (api : Api) (op : Nat) (body rest : Bytes)
    (hb : body.length ≤ maxBodyCode e d) (hop : op < opBound d) :
    ∃ v, writeFrame e d op body = .ok v ∧ readFrame api e d (v ++ rest) = .ok ((op, body), rest) := by
  obtain ⟨hdr, hw, _, hr⟩ := write_ok_partial e d api op body rest hb hop
  refine ⟨hdr ++ body, hw, ?_⟩
  simp only [readFrame, hr, take?_append' body.length body rest rfl]

/-- **C02 (streams)** — any concatenation of written messages decodes to the same sequence of messages, with the
reader positioned exactly at the end (induction over the sequence). -/
theorem stream (e : Exp) (d : Dir) (api : Api) (ms : List (Nat × Bytes)) (rest : Bytes)
    (h : ∀ m ∈ ms, m.2.length ≤ maxBodyCode e d ∧ m.1 < opBound d) :
    ∃ s, writeAll e d ms = some s ∧ readN api e d ms.length (s ++ rest) = .ok (ms, rest) := by
  induction ms with
  | nil => exact ⟨[], rfl, rfl⟩
  | cons m ms ih =>
    obtain ⟨op, body⟩ := m
    obtain ⟨s, hs, hr⟩ := ih (fun m hm => h m (List.mem_cons_of_mem _ hm))
    have hm := h (op, body) (List.mem_cons_self)
    obtain ⟨v, hv, hrv⟩ := read_write e d api op body (s ++ rest) hm.1 hm.2
    refine ⟨v ++ s, ?_, ?_⟩
    · simp only [writeAll, hv, hs]
    · simp only [List.length_cons, readN, List.append_assoc, hrv, hr]

/-! ### The full statement and why only the partial one is provable (known finding C02/u16-total-size-overflow)

The property demands writing to complete for every body the header form can express (`maxBody`: 65533 server /
65531 client for the 2-byte form).  The code computes the *total* size in `u16`, which overflows earlier: -/
theorem write_aborts_vanilla_tbc_server (e : Exp) (he : e ≠ .wrath) (op : Nat) (body : Bytes)
    (h : 65532 ≤ body.length ∧ body.length ≤ maxBody e .server) : writeFrame e .server op body = .error .overflow := by
  have hb : body.length ≤ 65533 := by cases e <;> first | (exact absurd rfl he) | simpa [maxBody] using h.2
  have := u16Total_overflow body.length 4 (by omega) (by omega)
  cases e <;> first | (exact absurd rfl he) | simp [writeFrame, SERVER_HEADER_LENGTH, this]

theorem write_aborts_client (e : Exp) (op : Nat) (body : Bytes)
    (h : 65530 ≤ body.length ∧ body.length ≤ maxBody e .client) : writeFrame e .client op body = .error .overflow := by
  have hb : body.length ≤ 65531 := by cases e <;> simpa [maxBody] using h.2
  have := u16Total_overflow body.length 6 (by omega) (by omega)
  cases e <;> simp [writeFrame, CLIENT_HEADER_LENGTH, this]

/-- for Wrath server messages the code range is the full range of the header form -/
theorem wrath_server_full_range : maxBodyCode .wrath .server = maxBody .wrath .server := rfl

/-! ### non-vacuity -/
example : writeFrame .wrath .server 0x2e6 [1, 2, 3] = .ok [0, 5, 0xe6, 0x02, 1, 2, 3] := by rfl
example : readFrame .opcodeEnum .wrath .server [0, 5, 0xe6, 0x02, 1, 2, 3, 9] = .ok ((0x2e6, [1, 2, 3]), [9]) := by rfl
example : headerLen .wrath .server 32765 = 4 ∧ headerLen .wrath .server 32766 = 5 := by decide

end WowVerif.Frame

open WowVerif.Frame in
#print axioms write_ok_partial
open WowVerif.Frame in
#print axioms read_write
open WowVerif.Frame in
#print axioms stream
open WowVerif.Frame in
#print axioms write_aborts_vanilla_tbc_server
open WowVerif.Frame in
#print axioms write_aborts_client
