/-
The per-enumerator normal form is also the same ENCODER (`expand_encode`), so a generated Rust WRITER whose translation
(tools/rust_codec.py, `write_into_vec`) equals the normal form of its definition's program writes exactly the canonical encoding
(`writer_encodes_as_spec`), and what it writes is read back by a matching reader (`writer_reader_roundtrip`).
-/
import WowVerif.Thm.C01c
namespace WowVerif.Sem

theorem envOk_drop_bind (dom : Dom) (env : Env) (id : Nat) (v : Val) (hok : EnvOk dom env) :
    EnvOk (dom.drop id) (env.bind id v) := by
  intro var vals hl
  have := lookup_filter (fun k => k != id) dom var vals hl
  obtain ⟨hp, hd⟩ := this
  obtain ⟨x, hx, hm⟩ := hok var vals hd
  refine ⟨x, ?_, hm⟩
  rw [get_bind_ne env id var v (by simpa using hp)]; exact hx

theorem encMembers_selfSize (id : Nat) (t : Ty) (ms : Members) (env : Env) (v : Val) (vs : List Val) :
    encMembers (.cons (.field id .selfSize t) ms) env (v :: vs) =
      (match encMembers ms (env.bind id v) vs with
       | Option.none => Option.none
       | some (b2, env2) =>
         match v with
         | .nat n => if n = b2.length then (encTy t env v).map fun b1 => (b1 ++ b2, env2) else Option.none
         | _ => Option.none) := by
  simp only [encMembers]; rfl

/-! ### frame (encoder) -/
mutual
theorem efM : ∀ (m : Member) (env : Env) (v : Val) (b : Bytes) (env' : Env),
    encMember m env v = some (b, env') → ∀ var, var ∉ boundM m → env'.get var = env.get var
  | .field id role t, env, v, b, env', h, var, hv => by
    simp only [encMember] at h
    split at h
    · cases ht : encTy t env v with
      | none => simp [ht] at h
      | some b0 =>
        simp only [ht, Option.map_some, Option.some.injEq, Prod.mk.injEq] at h
        rw [← h.2]
        exact get_bind_ne env id var v (by simpa [boundM] using hv)
    · simp at h
  | .ifs var' bsx, env, v, b, env', h, var, hv => by
    cases v with
    | tuple vs =>
      simp only [encMember] at h
      split at h
      · simp at h
      · rename_i x _
        exact efB bsx x env vs b env' h var (by simpa [boundM] using hv)
    | _ => simp [encMember] at h
  | .endless id t, env, v, b, env', h, var, hv => by
    cases v with
    | list vs =>
      simp only [encMember] at h
      cases hi : iterEnc1 (encTy t env) vs with
      | none => simp [hi] at h
      | some b0 =>
        simp only [hi, Option.map_some, Option.some.injEq, Prod.mk.injEq] at h
        rw [← h.2]
    | _ => simp [encMember] at h
  | .optional ms, env, v, b, env', h, var, hv => by
    cases v with
    | none =>
      simp only [encMember, Option.some.injEq, Prod.mk.injEq] at h
      rw [← h.2]
    | tuple vs =>
      simp only [encMember] at h
      split at h
      · rename_i x b0 e0 he
        simp only [Option.some.injEq, Prod.mk.injEq] at h
        rw [← h.2]
        exact efMs ms env vs (x :: b0) e0 he var (by simpa [boundM] using hv)
      · simp at h
    | _ => simp [encMember] at h
theorem efB : ∀ (bsx : Branches) (x : Nat) (env : Env) (vs : List Val) (b : Bytes) (env' : Env),
    encBranches bsx x env vs = some (b, env') → ∀ var, var ∉ boundB bsx → env'.get var = env.get var
  | .els ms, x, env, vs, b, env', h, var, hv => by
    simp only [encBranches] at h
    exact efMs ms env vs b env' h var (by simpa [boundB] using hv)
  | .cons c ms rest, x, env, vs, b, env', h, var, hv => by
    simp only [encBranches] at h
    simp only [boundB, List.mem_append, not_or] at hv
    split at h
    · exact efMs ms env vs b env' h var hv.1
    · exact efB rest x env vs b env' h var hv.2
theorem efMs : ∀ (ms : Members) (env : Env) (vs : List Val) (b : Bytes) (env' : Env),
    encMembers ms env vs = some (b, env') → ∀ var, var ∉ boundMs ms → env'.get var = env.get var
  | .nil, env, vs, b, env', h, var, hv => by
    obtain ⟨_, _, he⟩ := encMembers_nil env vs b env' h
    rw [he]
  | .cons m ms, env, vs, b, env', h, var, hv => by
    simp only [boundMs, List.mem_append, not_or] at hv
    cases vs with
    | nil => cases m <;> simp [encMembers] at h
    | cons v vs =>
      by_cases hs : isSelfSize m = true
      · cases m with
        | field id role t =>
          cases role with
          | selfSize =>
            rw [encMembers_selfSize] at h
            split at h
            · simp at h
            · rename_i b2 env2 he
              have e2 : env2 = env' := by
                cases v with
                | nat n =>
                  simp only at h
                  split at h
                  · cases ht : encTy t env (.nat n) with
                    | none => simp [ht] at h
                    | some b1 =>
                      simp only [ht, Option.map_some, Option.some.injEq, Prod.mk.injEq] at h
                      exact h.2
                  · simp at h
                | _ => simp at h
              subst e2
              rw [efMs ms (env.bind id v) vs b2 env2 he var hv.2]
              exact get_bind_ne env id var v (by simpa [boundM] using hv.1)
          | _ => simp [isSelfSize] at hs
        | _ => simp [isSelfSize] at hs
      · have hs' : isSelfSize m = false := by simpa using hs
        rw [encMembers_cons_general m ms env v vs hs'] at h
        split at h
        · simp at h
        · rename_i b1 env1 hm
          split at h
          · simp at h
          · rename_i b2 env2 hms
            simp only [Option.some.injEq, Prod.mk.injEq] at h
            rw [← h.2, efMs ms env1 vs b2 env2 hms var hv.2, efM m env v b1 env1 hm var hv.1]
end

theorem encLeaf_enum_mem (k : Nat) (e : Endian) (vals : List Nat) (v : Val) (b : Bytes)
    (h : encLeaf (.enumT k e vals) v = some b) : ∃ n, v = .nat n ∧ n ∈ vals := by
  cases v with
  | nat n =>
    simp only [encLeaf] at h
    split at h
    · rename_i hc; exact ⟨n, rfl, by simpa using hc⟩
    · simp at h
  | _ => simp [encLeaf] at h

/-- the recorded domains stay true along a member list (encoder; members other than `self.size` fields) -/
theorem enc_after_ok (dom : Dom) (m : Member) (env : Env) (v : Val) (b : Bytes) (env1 : Env)
    (hok : EnvOk dom env) (h : encMember m env v = some (b, env1)) : EnvOk (dom.after m) env1 := by
  have drop_case : ∀ ids : List Nat, (∀ var, var ∉ ids → env1.get var = env.get var) → EnvOk (dom.dropAll ids) env1 := by
    intro ids hfr var vals hl
    have := lookup_filter (fun k => !ids.contains k) dom var vals hl
    obtain ⟨hp, hd⟩ := this
    obtain ⟨x, hx, hm⟩ := hok var vals hd
    refine ⟨x, ?_, hm⟩
    rw [hfr var (by simpa using hp)]; exact hx
  cases m with
  | field id role t =>
    have henv : env1 = env.bind id v := by
      simp only [encMember] at h
      split at h
      · cases ht : encTy t env v with
        | none => simp [ht] at h
        | some b0 =>
          simp only [ht, Option.map_some, Option.some.injEq, Prod.mk.injEq] at h
          exact h.2.symm
      · simp at h
    subst henv
    have generic : EnvOk (dom.drop id) (env.bind id v) := envOk_drop_bind dom env id v hok
    have enumCase : ∀ k e vals, t = .leaf (.enumT k e vals) → EnvOk ((id, vals) :: dom) (env.bind id v) := by
      intro k e vals ht
      subst ht
      simp only [encMember] at h
      split at h
      · cases hl : encLeaf (.enumT k e vals) v with
        | none => simp [encTy, hl] at h
        | some b0 =>
          obtain ⟨n, hn, hmem⟩ := encLeaf_enum_mem k e vals v b0 hl
          subst hn
          intro var vals' hlk
          simp only [List.lookup] at hlk
          by_cases hk : var = id
          · subst hk
            simp at hlk
            subst hlk
            exact ⟨n, by simp [Env.bind, Env.get], hmem⟩
          · have hk' : (var == id) = false := by simpa using hk
            simp only [hk'] at hlk
            obtain ⟨x, hx, hm⟩ := hok var vals' hlk
            exact ⟨x, by rw [get_bind_ne env id var _ hk]; exact hx, hm⟩
      · simp at h
    cases role with
    | selfSize => exact generic
    | plain =>
      cases t with
      | leaf l =>
        cases l with
        | enumT k e vals => exact enumCase k e vals rfl
        | _ => exact generic
      | _ => exact generic
    | const c =>
      cases t with
      | leaf l =>
        cases l with
        | enumT k e vals => exact enumCase k e vals rfl
        | _ => exact generic
      | _ => exact generic
  | ifs var bsx => exact drop_case _ (efM _ env v b env1 h)
  | endless id t => exact drop_case _ (efM _ env v b env1 h)
  | optional ms => exact drop_case _ (efM _ env v b env1 h)

/-! ### the normal form encodes like the program -/
theorem isSelfSize_expandM (dom : Dom) (m : Member) : isSelfSize (expandM dom m) = isSelfSize m := by
  cases m with
  | field id role t => cases role <;> simp [expandM, isSelfSize]
  | ifs var bs => simp only [expandM]; split <;> simp [isSelfSize]
  | endless id t => simp [expandM, isSelfSize]
  | optional ms => simp [expandM, isSelfSize]

mutual
theorem eTy : ∀ (t : Ty) (env : Env) (v : Val), encTy (expandTy t) env v = encTy t env v
  | .leaf l, env, v => by simp [expandTy]
  | .struct ms, env, v => by
    cases v with
    | tuple vs => simp only [expandTy, encTy]; rw [eMs ms [] [] vs (envOk_nil [])]
    | _ => simp [expandTy, encTy]
  | .arrFixed n t, env, v => by
    cases v with
    | list vs =>
      simp only [expandTy, encTy]
      rw [show encTy (expandTy t) env = encTy t env from funext (eTy t env)]
    | _ => simp [expandTy, encTy]
  | .arrVar x t, env, v => by
    cases v with
    | list vs =>
      simp only [expandTy, encTy]
      rw [show encTy (expandTy t) env = encTy t env from funext (eTy t env)]
    | _ => simp [expandTy, encTy]
theorem eM : ∀ (m : Member) (dom : Dom) (env : Env) (v : Val), EnvOk dom env →
    encMember (expandM dom m) env v = encMember m env v
  | .field id r t, dom, env, v, h => by simp only [expandM, encMember, eTy t env v]
  | .ifs var bsx, dom, env, v, h => by
    simp only [expandM]
    cases v with
    | tuple vs =>
      cases hl : dom.lookup var with
      | none =>
        simp only [encMember]
        cases env.get var with
        | none => rfl
        | some x => simp only [eB bsx dom x env vs h]
      | some vals =>
        obtain ⟨x, hx, hm⟩ := h var vals hl
        simp only [encMember, hx, encBranches_armsFor _ vals x env vs hm, eB bsx dom x env vs h]
    | _ => cases dom.lookup var <;> simp [encMember]
  | .endless id t, dom, env, v, h => by
    cases v with
    | list vs =>
      simp only [expandM, encMember]
      rw [show encTy (expandTy t) env = encTy t env from funext (eTy t env)]
    | _ => simp [expandM, encMember]
  | .optional ms, dom, env, v, h => by
    cases v with
    | tuple vs => simp only [expandM, encMember, eMs ms dom env vs h]
    | _ => simp [expandM, encMember]
theorem eB : ∀ (bsx : Branches) (dom : Dom) (x : Nat) (env : Env) (vs : List Val), EnvOk dom env →
    encBranches (expandB dom bsx) x env vs = encBranches bsx x env vs
  | .els ms, dom, x, env, vs, h => by simp only [expandB, encBranches, eMs ms dom env vs h]
  | .cons c ms rest, dom, x, env, vs, h => by
    simp only [expandB, encBranches, eMs ms dom env vs h, eB rest dom x env vs h]
theorem eMs : ∀ (ms : Members) (dom : Dom) (env : Env) (vs : List Val), EnvOk dom env →
    encMembers (expandMs dom ms) env vs = encMembers ms env vs
  | .nil, dom, env, vs, h => by simp [expandMs]
  | .cons m ms, dom, env, vs, h => by
    cases vs with
    | nil => cases m <;> simp [expandMs, encMembers]
    | cons v vs =>
      by_cases hs : isSelfSize m = true
      · cases m with
        | field id role t =>
          cases role with
          | selfSize =>
            simp only [expandMs, expandM, Dom.after]
            rw [encMembers_selfSize, encMembers_selfSize,
              eMs ms (dom.drop id) (env.bind id v) vs (envOk_drop_bind dom env id v h), eTy t env v]
          | _ => simp [isSelfSize] at hs
        | _ => simp [isSelfSize] at hs
      · have hs' : isSelfSize m = false := by simpa using hs
        simp only [expandMs]
        rw [encMembers_cons_general (expandM dom m) _ env v vs (by rw [isSelfSize_expandM]; exact hs'),
          encMembers_cons_general m ms env v vs hs', eM m dom env v h]
        cases hm : encMember m env v with
        | none => rfl
        | some p =>
          obtain ⟨b1, env1⟩ := p
          simp only [eMs ms (dom.after m) env1 vs (enc_after_ok dom m env v b1 env1 h hm)]
end

/-- **the normal form is the same encoder** — every container, every value -/
theorem expand_encode (c : Members) (vs : List Val) : encode (expandMs [] c) vs = encode c vs := by
  simp only [encode, eMs c [] [] vs (envOk_nil [])]

/-- what `progeq = same` gives for a translated WRITER: it produces exactly the canonical encoding of the definition -/
theorem writer_encodes_as_spec (spec rust : Members) (h : readerMatches spec rust = true) (vs : List Val) :
    encode rust vs = encode spec vs := by
  rw [readerMatches_sound spec rust h, expand_encode]

/-! ### decoding ignores roles -/
mutual
theorem erTy : ∀ (t : Ty) (env : Env) (bs : Bytes), decTy (eraseTy t) env bs = decTy t env bs
  | .leaf l, env, bs => by simp [eraseTy]
  | .struct ms, env, bs => by simp only [eraseTy, decTy, erMs ms [] bs]
  | .arrFixed n t, env, bs => by
    simp only [eraseTy, decTy]
    rw [show decTy (eraseTy t) env = decTy t env from funext (erTy t env)]
  | .arrVar v t, env, bs => by
    simp only [eraseTy, decTy]
    rw [show decTy (eraseTy t) env = decTy t env from funext (erTy t env)]
theorem erM : ∀ (m : Member) (env : Env) (bs : Bytes), decMember (eraseM m) env bs = decMember m env bs
  | .field id r t, env, bs => by simp only [eraseM, decMember, erTy t env bs]
  | .ifs var bsx, env, bs => by
    simp only [eraseM, decMember]
    cases env.get var with
    | none => rfl
    | some x => simp only [erB bsx x env bs]
  | .endless id t, env, bs => by
    simp only [eraseM, decMember]
    rw [show decTy (eraseTy t) env = decTy t env from funext (erTy t env)]
  | .optional ms, env, bs => by simp only [eraseM, decMember, erMs ms env bs]
theorem erB : ∀ (bsx : Branches) (x : Nat) (env : Env) (inp : Bytes),
    decBranches (eraseB bsx) x env inp = decBranches bsx x env inp
  | .els ms, x, env, inp => by simp only [eraseB, decBranches, erMs ms env inp]
  | .cons c ms rest, x, env, inp => by simp only [eraseB, decBranches, erMs ms env inp, erB rest x env inp]
theorem erMs : ∀ (ms : Members) (env : Env) (bs : Bytes), decMembers (eraseMs ms) env bs = decMembers ms env bs
  | .nil, env, bs => by simp [eraseMs, decMembers]
  | .cons m ms, env, bs => by
    simp only [eraseMs, decMembers, erM m env bs]
    cases decMember m env bs with
    | error e => rfl
    | ok p =>
      obtain ⟨v, env1, r⟩ := p
      simp only [erMs ms env1 r]
end

theorem erase_decode (c : Members) (bs : Bytes) : decode (eraseMs c) bs = decode c bs := by
  simp only [decode, erMs c [] bs]

/-- what `progeq … reader = same` gives: the translated Rust READER decodes every byte string exactly as the definition -/
theorem readerE_decodes_as_spec (spec rust : Members) (h : readerMatchesE spec rust = true) (bs : Bytes) :
    decode rust bs = decode spec bs := by
  simp only [readerMatchesE, decide_eq_true_eq] at h
  rw [← h, erase_decode, expand_decode]

/-- **writer ∘ reader of the generated code, as translated**: when both match the definition, whatever the writer emits for a value
the reader decodes to that value, consuming every byte — for every value of every well-formed definition -/
theorem writer_reader_roundtrip (spec writer reader : Members)
    (hw : writerMatches spec writer = true) (hr : readerMatchesE spec reader = true) (hwf : wfMs spec = true)
    (vs : List Val) (b : Bytes) (he : encode writer vs = some b) : decode reader b = .ok vs := by
  have hw' : readerMatches spec writer = true := hw
  rw [writer_encodes_as_spec spec writer hw'] at he
  rw [readerE_decodes_as_spec spec reader hr, decode_encode spec vs b hwf he]

end WowVerif.Sem

open WowVerif.Sem in
#print axioms efMs
open WowVerif.Sem in
#print axioms enc_after_ok
open WowVerif.Sem in
#print axioms eMs
open WowVerif.Sem in
#print axioms expand_encode
open WowVerif.Sem in
#print axioms writer_encodes_as_spec
open WowVerif.Sem in
#print axioms erase_decode
open WowVerif.Sem in
#print axioms readerE_decodes_as_spec
open WowVerif.Sem in
#print axioms writer_reader_roundtrip
