/-
C15 — DateTime accepts exactly real calendar instants; accessors invert its packing.
Property theorems only (helper lemmas are local and `private`).
-/
import WowVerif.Model.DateTime
namespace WowVerif.DateTime

/-- The code's leap test is the Gregorian rule. -/
private theorem leapYear_eq (y : Nat) : leapYear y = isLeap (2000 + y) := by
  unfold leapYear isLeap
  simp only [Nat.add_comm y 2000]
  generalize 2000 + y = n
  set_option linter.unusedSimpArgs false in
  cases h4 : (n % 4 == 0) <;> cases h100 : (n % 100 == 0) <;> cases h400 : (n % 400 == 0) <;>
    simp [bne, h4, h100, h400] <;> simp at h4 h100 h400 <;> omega

private theorem maximumDays_eq (m y : Nat) (hm : m < 12) :
    maximumDays m y = daysInMonth (2000 + y) m := by
  have : m = 0 ∨ m = 1 ∨ m = 2 ∨ m = 3 ∨ m = 4 ∨ m = 5 ∨ m = 6 ∨ m = 7 ∨ m = 8 ∨ m = 9 ∨ m = 10 ∨ m = 11 := by omega
  rcases this with h | h | h | h | h | h | h | h | h | h | h | h <;> subst h <;>
    simp [maximumDays, daysInMonth, leapYear_eq]

private theorem daysFromPreviousMonths_eq (m y : Nat) (hm : m ≤ 12) :
    daysFromPreviousMonths m y = daysBeforeMonth (2000 + y) m := by
  induction m with
  | zero => rfl
  | succ k ih =>
    simp only [daysFromPreviousMonths, daysBeforeMonth]
    rw [ih (by omega), maximumDays_eq k y (by omega)]

/-- the closed-form leap-day count of the code, as a function of the year alone -/
private def codeDaysFromYears (y : Nat) : Nat :=
  let l0 := y / 4 - y / 100
  let l1 := if y > 0 then l0 + 1 else l0
  let l2 := if leapYear y && l1 > 0 then l1 - 1 else l1
  y * 365 + l2

/-- finite table: for every year byte the code's closed form is congruent (mod 7) to the reference
year sum.  256 cases, evaluated by the kernel. -/
private theorem codeDaysFromYears_mod7 :
    ∀ y, y < 256 → codeDaysFromYears y % 7 = daysBeforeYear y % 7 := by
  decide +kernel

/-- **Weekday prediction is the real weekday** for every year byte, month and day. -/
theorem predictedWeekday_correct (y m d : Nat) (hy : y < 256) (hm : m < 12) :
    predictedWeekday d m y = weekdayOf y m d := by
  have h1 := codeDaysFromYears_mod7 y hy
  have h2 := daysFromPreviousMonths_eq m y (by omega)
  unfold codeDaysFromYears at h1
  unfold predictedWeekday weekdayOf dayNumber
  simp only [] at h1 ⊢
  rw [h2]
  omega

/-- **C15 (acceptance)**: a 32-bit value converts iff its fields encode a real calendar instant. -/
theorem tryFrom_ok_iff (v : Nat) (_hv : v < 2 ^ 32) :
    (∃ t, tryFrom v = .ok t) ↔ validSpec v := by
  have hy : vYears v < 256 := by unfold vYears; omega
  have hw : weekdayOf (vYears v) (vMonth v) (vMonthDay v) < 7 := by unfold weekdayOf; omega
  unfold tryFrom validSpec
  simp only []
  by_cases h1 : vMinutes v > 59
  · simp [h1]; omega
  by_cases h2 : vHours v > 23
  · simp [h1, h2]; omega
  by_cases h4 : vMonth v > 11
  · by_cases h3 : vWeekday v > 6 <;> simp [h1, h2, h3, h4] <;> omega
  have hm : vMonth v < 12 := by omega
  rw [predictedWeekday_correct _ _ _ hy hm, maximumDays_eq _ _ hm]
  by_cases h3 : vWeekday v > 6
  · simp [h1, h2, h3]; omega
  by_cases h5 : vMonthDay v ≥ daysInMonth (2000 + vYears v) (vMonth v)
  · simp [h1, h2, h3, h4, h5]; omega
  by_cases h6 : vWeekday v = weekdayOf (vYears v) (vMonth v) (vMonthDay v)
  · have h3' : ¬ 6 < weekdayOf (vYears v) (vMonth v) (vMonthDay v) := by omega
    simp [h1, h2, h3', h4, h5, h6]; omega
  · simp [h1, h2, h3, h4, h5, h6]

/-- **C15 (accessors)**: for every accepted value the integer form is unchanged and each accessor
returns the corresponding bit field of the input. -/
theorem tryFrom_accessors (v : Nat) (hv : v < 2 ^ 32) (t : DT) (h : tryFrom v = .ok t) :
    t.asInt = v ∧ t.minutes = vMinutes v ∧ t.hours = vHours v ∧ t.weekday = vWeekday v ∧
    t.monthDay = vMonthDay v ∧ t.month = vMonth v ∧ t.years = vYears v := by
  have hv' : v < 4294967296 := by simpa using hv
  have key : t.inner = v := by
    unfold tryFrom at h
    simp only [] at h
    repeat (split at h; · cases h)
    injection h with h
    subst h
    simp only [DT.new, vMinutes, vHours, vWeekday, vMonthDay, vMonth, vYears] at *
    omega
  simp [DT.asInt, DT.minutes, DT.hours, DT.weekday, DT.monthDay, DT.month, DT.years, key]

/-- Errors report the offending field (first failing test in the code's order). -/
theorem tryFrom_minute_error (v : Nat) (h : vMinutes v ≥ 60) : tryFrom v = .error (.minute (vMinutes v)) := by
  unfold tryFrom; simp only []; rw [if_pos (by omega)]

/-! ### Non-vacuity and anchoring of the reference calendar -/

/-- Wednesday 2026-09-30 12:34 — accepted, fields read back. -/
example : tryFrom (DT.new 26 8 29 3 12 34).inner = .ok (DT.new 26 8 29 3 12 34) := by rfl
example : validSpec (DT.new 26 8 29 3 12 34).inner := by decide
/-- the reference calendar agrees with known dates (Sunday = 0) -/
example : weekdayOf 0 0 0 = 6 := by decide          -- Sat 2000-01-01
example : weekdayOf 0 1 28 = 2 := by decide         -- Tue 2000-02-29
example : weekdayOf 24 1 28 = 4 := by decide        -- Thu 2024-02-29
example : weekdayOf 26 8 29 = 3 := by decide        -- Wed 2026-09-30
example : weekdayOf 100 2 0 = 1 := by decide        -- Mon 2100-03-01 (2100 is not a leap year)
/-- "January 32nd" and "April 31st" and Feb 29th 2001 are rejected. -/
example : tryFrom 512000 = .error (.monthDay 0 31) := by rfl
example : ¬ validSpec 512000 := by decide
example : ∀ w, w < 8 → (tryFrom (DT.new 1 1 28 w 0 0).inner).toBool = false := by decide

end WowVerif.DateTime

open WowVerif.DateTime in
#print axioms predictedWeekday_correct
open WowVerif.DateTime in
#print axioms tryFrom_ok_iff
open WowVerif.DateTime in
#print axioms tryFrom_accessors
