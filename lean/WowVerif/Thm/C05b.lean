/-
C05 end to end: header encryption around the framing around the body codec.  For any cipher with the coupling law, any message table and
any finite sequence of message VALUES the table can carry: the encrypted writers produce a stream from which the peer's decrypting reader
takes the frames of exactly those messages, whose bodies decode to exactly those values, the reader ending at the end and the cipher
states still coupled (`enc_session`).
-/
import WowVerif.Thm.C05
import WowVerif.Thm.C02c
namespace WowVerif.FrameEnc
open WowVerif.Frame WowVerif.Sem WowVerif.Session

variable (C : Cipher)

/-- bodies of the messages, by the specification encoder -/
def encodeAll (t : Table) : List (Nat × List Val) → Option (List (Nat × Frame.Bytes))
  | [] => some []
  | (op, vs) :: ms =>
    match t.find op with
    | none => none
    | some c =>
      match Sem.encode c vs, encodeAll t ms with
      | some b, some r => some ((op, b) :: r)
      | _, _ => none

/-- what the reader's dispatch makes of the frames -/
def decodeAll (t : Table) : List (Nat × Frame.Bytes) → List Outcome
  | [] => []
  | (op, body) :: fs =>
    (match t.find op with
     | none => Outcome.unknownOpcode op
     | some c => match Sem.decode c body with
        | .ok vs => Outcome.msg op vs
        | .error x => Outcome.badBody op x) :: decodeAll t fs

theorem encodeAll_carries (e : Exp) (d : Dir) (t : Table) : ∀ (ms : List (Nat × List Val)), (∀ m ∈ ms, Carries e d t m) →
    ∃ fs, encodeAll t ms = some fs ∧ (∀ f ∈ fs, f.2.length ≤ maxBodyCode e d ∧ f.1 < opBound d) ∧
      decodeAll t fs = ms.map (fun m => Outcome.msg m.1 m.2)
  | [], _ => ⟨[], rfl, by simp, rfl⟩
  | (op, vs) :: ms, h => by
    obtain ⟨fs, hfs, hb, hd⟩ := encodeAll_carries e d t ms (fun m hm => h m (List.mem_cons_of_mem _ hm))
    obtain ⟨c, body, hf, hw, he, hlen, hop⟩ := h (op, vs) List.mem_cons_self
    refine ⟨(op, body) :: fs, ?_, ?_, ?_⟩
    · simp only [encodeAll, hf, he, hfs]
    · intro f hfm
      cases hfm with
      | head => exact ⟨hlen, hop⟩
      | tail _ h' => exact hb f h'
    · have hdec : Sem.decode c body = .ok vs := decode_encode c vs body hw he
      simp only [decodeAll, hf, hdec, hd, List.map_cons]

/-- **C05 for whole sessions of message values** -/
theorem enc_session (e0 : C.E) (d0 : C.D) (hR : C.R e0 d0) (x : Exp) (dir : Dir) (api : Api) (t : Table)
    (ms : List (Nat × List Val)) (rest : Frame.Bytes) (h : ∀ m ∈ ms, Carries x dir t m) :
    ∃ fs e' s d', encodeAll t ms = some fs ∧ writeAllEnc C e0 x dir fs = some (e', s) ∧
      readNEnc C d0 api x dir ms.length (s ++ rest) = .ok ((fs, rest), d') ∧ C.R e' d' ∧
      decodeAll t fs = ms.map (fun m => Outcome.msg m.1 m.2) := by
  obtain ⟨fs, hfs, hb, hd⟩ := encodeAll_carries x dir t ms h
  obtain ⟨e', s, d', hw, hr, hR'⟩ := enc_stream C e0 d0 hR x dir api fs rest hb
  have hl : fs.length = ms.length := by
    have := congrArg List.length hd
    simp [decodeAll] at this
    have hlen : ∀ (l : List (Nat × Frame.Bytes)), (decodeAll t l).length = l.length := by
      intro l; induction l with
      | nil => rfl
      | cons a l ih => obtain ⟨o, b⟩ := a; simp [decodeAll, ih]
    rw [hlen] at this; exact this
  rw [hl] at hr
  exact ⟨fs, e', s, d', hfs, hw, hr, hR', hd⟩

end WowVerif.FrameEnc

open WowVerif.FrameEnc in
#print axioms enc_session
