/-
Line-protocol driver: one request per line on stdin, one reply per line on stdout.
Answers come from the executable model only.  Import-free apart from model files (links natively).
-/
import WowVerif.Model.DateTime
import WowVerif.Model.Flag
import WowVerif.Model.Enum
import WowVerif.Model.Frame
import WowVerif.Model.FrameExpect
import WowVerif.Model.Geometry
import WowVerif.Model.SemIO
import WowVerif.Model.SemNorm
import WowVerif.Model.Session
import WowVerif.Model.ChunkSem
import WowVerif.Model.SemSize
import WowVerif.Model.SemLimits
import WowVerif.Model.UpdateMask
import WowVerif.Model.ChunkFrame
import WowVerif.Model.View
import WowVerif.Model.Cfg
import WowVerif.Model.Wireshark
import WowVerif.Model.Example
import WowVerif.Thm.C17c
import WowVerif.Thm.C17d
import Std.Data.HashMap
import WowVerif.Model.SizeFn
namespace WowVerif.Driver

def fnvStep (h : UInt64) (x : UInt64) : UInt64 := (h ^^^ x) * 0x100000001b3

/-- digest of DateTime outcomes over `[lo, hi)` -/
def dtSweep (lo hi : Nat) : UInt64 × Nat := Id.run do
  let mut h : UInt64 := 0xcbf29ce484222325
  let mut oks := 0
  for v in [lo:hi] do
    let c := DateTime.outcomeCode v
    if c % 8 == 1 then oks := oks + 1
    h := fnvStep h c
  return (h, oks)

/-- digest over all (year, month, day, weekday) field combinations in `[lo,hi)` (21 bits: bits 11..31 of the value)
crossed with 16 (hour, minute) corner pairs. -/
def dtCorners : List Nat := [0, 1, 59, 60, 63, 23 * 64, 23 * 64 + 59, 24 * 64, 24 * 64 + 59, 31 * 64 + 63,
  12 * 64 + 34, 23 * 64 + 60, 24 * 64 + 60, 31 * 64, 5 * 64 + 61, 17 * 64 + 30]

def dtFieldSweep (lo hi : Nat) : UInt64 × Nat := Id.run do
  let mut h : UInt64 := 0xcbf29ce484222325
  let mut oks := 0
  for f in [lo:hi] do
    for c in dtCorners do
      let v := f * 2048 + c
      let code := DateTime.outcomeCode v
      if code % 8 == 1 then oks := oks + 1
      h := fnvStep h code
  return (h, oks)


/-! ## flags -/
open Flag in
partial def parseBitExpr : List String → Option (BitExpr × List String)
  | "inner" :: r => some (.inner, r)
  | "rhs" :: r => some (.rhs, r)
  | "arg" :: r => some (.arg, r)
  | "unknown" :: r => some (.unknown, r)
  | "and" :: r => do let (a, r) ← parseBitExpr r; let (b, r) ← parseBitExpr r; pure (.and a b, r)
  | "or" :: r => do let (a, r) ← parseBitExpr r; let (b, r) ← parseBitExpr r; pure (.or a b, r)
  | "xor" :: r => do let (a, r) ← parseBitExpr r; let (b, r) ← parseBitExpr r; pure (.xor a b, r)
  | "not" :: r => do let (a, r) ← parseBitExpr r; pure (.not a, r)
  | "rev" :: r => do let (a, r) ← parseBitExpr r; pure (.rev a, r)
  | t :: r => if t.startsWith "c" then (t.drop 1).toNat?.map (fun n => (.const n, r)) else none
  | [] => none

open Flag in
partial def parseBoolBody : List String → Option (BoolBody × List String)
  | "ne0" :: r => do let (a, r) ← parseBitExpr r; pure (.ne0 a, r)
  | "eq0" :: r => do let (a, r) ← parseBitExpr r; pure (.eq0 a, r)
  | "orb" :: r => do let (a, r) ← parseBoolBody r; let (b, r) ← parseBoolBody r; pure (.orB a b, r)
  | "unknownb" :: r => some (.unknown, r)
  | _ => none

open Flag in
def parseBody : List String → Option Body
  | "val" :: r => match parseBitExpr r with
      | some (e, []) => some (.val e)
      | _ => none
  | "test" :: r => match parseBoolBody r with
      | some (b, []) => some (.test b)
      | _ => none
  | _ => none

open Flag in
def parseRole : String → Option Role
  | "is" => some .isQ | "set" => some .setQ | "clear" => some .clearQ | "newq" => some .newQ
  | "empty" => some .empty | "isempty" => some .isEmpty | "all" => some .all | "new" => some .new
  | "asint" => some .asInt | "opand" => some .opAnd | "opor" => some .opOr | "opxor" => some .opXor
  | _ => none

open Flag in
/-- the property's demand for a role, computed directly (independent of `specVal`), used to look for a failing input -/
def roleWant {w : Nat} (role : Role) (v allV : Nat) (zav : Bool) (env : Env w) : Sum (BitVec w) Bool :=
  let V := BitVec.ofNat w v
  match role with
  | .isQ => .inr ((env.inner &&& V != 0) || (zav && env.inner == 0))
  | .setQ => .inl (env.inner ||| V)
  | .clearQ => .inl (env.inner &&& ~~~V)
  | .newQ => .inl V
  | .empty => .inl 0
  | .isEmpty => .inr (env.inner == 0)
  | .all => .inl (BitVec.ofNat w allV)
  | .new => .inl env.arg
  | .asInt => .inl env.inner
  | .opAnd => .inl (env.inner &&& env.rhs)
  | .opOr => .inl (env.inner ||| env.rhs)
  | .opXor => .inl (env.inner ^^^ env.rhs)

def showRes {w : Nat} : Sum (BitVec w) Bool → String
  | .inl x => toString x.toNat
  | .inr b => toString b

open Flag in
def flagItem (w : Nat) (role : Role) (v allV : Nat) (zav : Bool) (body : Body) : String :=
  if itemOk w role v allV zav body then "ok" else
  -- search a raw value on which the body misbehaves
  let ones := 2 ^ w - 1
  let xs : List Nat := [0, ones, v, ones - (v % (ones + 1)), 0x5555555555555555 % (ones + 1), 0xAAAAAAAAAAAAAAAA % (ones + 1)]
      ++ (List.range w).map (fun i => 2 ^ i) ++ (List.range w).map (fun i => ones - 2 ^ i)
  let rs : List Nat := [0x0F0F0F0F0F0F0F0F % (ones + 1), ones, 0]
  let cands := xs.flatMap fun x => rs.map fun r => (x, r)
  let bad := cands.find? fun (x, r) =>
    let env : Env w := ⟨BitVec.ofNat w x, BitVec.ofNat w r, BitVec.ofNat w r⟩
    match body.run? env, roleWant role v allV zav env with
    | some (.inl a), .inl b => a != b
    | some (.inr a), .inr b => a != b
    | some _, _ => true
    | none, _ => false
  match bad with
  | some (x, r) =>
    let env : Env w := ⟨BitVec.ofNat w x, BitVec.ofNat w r, BitVec.ofNat w r⟩
    let got := match body.run? env with | some g => showRes g | none => "?"
    s!"fail x={x} rhs={r} arg={r} got={got} want={showRes (roleWant role v allV zav env)}"
  | none => "fail nowitness"

/-! ## enums -/
def splitSections (ws : List String) : List (List String) :=
  let rec go (acc cur : List String) : List String → List (List String)
    | [] => [cur.reverse]
    | ";" :: r => cur.reverse :: go [] [] r
    | w :: r => go acc (w :: cur) r
  go [] [] ws

def parseInt? (s : String) : Option Int := s.toInt?
def pairNI (s : String) : Option (Nat × Int) := match s.splitOn ":" with
  | [a, b] => do let a ← a.toNat?; let b ← b.toInt?; pure (a, b)
  | _ => none
def pairIN (s : String) : Option (Int × Nat) := match s.splitOn ":" with
  | [a, b] => do let a ← a.toInt?; let b ← b.toNat?; pure (a, b)
  | _ => none

open Enum in
def parseConv (s : String) : Option (IntTy × Conv) := match s.splitOn ":" with
  | [b, sg, sh] => do
      let b ← b.toNat?
      let c : Conv := match sh with
        | "direct" => .direct | "into" => .into | "reinterpret" => .reinterpret | "checked" => .checked | _ => .unknown
      pure (⟨b, sg == "1"⟩, c)
  | _ => none

def showExc : Except Int Nat → String
  | .ok v => s!"ok:{v}"
  | .error n => s!"err:{n}"

open Enum in
def enumCk (ws : List String) : String :=
  match splitSections ws with
  | [[bits, sg, nameC], vars, decl, asint, fromint, [wild], convs, [wname, wbits, wsg], wen] =>
    let r? : Option (RustEnum × WowmEnum) := do
      let bits ← bits.toNat?
      let nameC ← nameC.toNat?
      let vars ← vars.mapM (·.toNat?)
      let decl ← decl.mapM (·.toNat?)
      let asint ← asint.mapM pairNI
      let fromint ← fromint.mapM pairIN
      let convs ← convs.mapM parseConv
      let wname ← wname.toNat?
      let wbits ← wbits.toNat?
      let wen ← wen.mapM pairNI
      pure ({ base := ⟨bits, sg == "1"⟩, nameConst := nameC, variants := vars, declared := decl, asInt := asint,
              fromInt := fromint, wildcardReportsValue := wild == "1", tryFrom := convs },
            { name := wname, base := ⟨wbits, wsg == "1"⟩, enumerators := wen })
    match r? with
    | none => "bad-op"
    | some (r, d) =>
      if enumOk r d then "ok" else
      -- search an integer on which the generated code deviates from the definition
      let vals := d.enumerators.map (·.2)
      let cands : List Int := (vals ++ r.fromInt.map (·.1) ++ r.asInt.map (·.2)).flatMap fun v =>
        [v, v + 1, v - 1, v + 256, v + 65536, v + 4294967296, v - 256, -v]
      let cands := cands ++ [0, -1, 127, 128, 255, 256, 32767, 32768, 65535, 65536, 2147483647, 2147483648, 4294967295, 4294967296,
        -128, -129, -32768, -32769, -2147483648, -2147483649]
      let bad1 := cands.find? fun n => d.base.inRange n && (match r.fromIntF n, d.lookup n with
        | .ok a, .ok b => a != b | .error a, .error b => a != b || !r.wildcardReportsValue | _, _ => true)
      match bad1 with
      | some n => s!"fail from_int n={n} got={showExc (r.fromIntF n)} want={showExc (d.lookup n)}"
      | none =>
        let bad2 := d.enumerators.find? fun (x, v) => r.asIntF x != some v
        match bad2 with
        | some (x, v) => s!"fail as_int variant={x} got={r.asIntF x} want={v}"
        | none =>
          if r.variants != d.enumerators.map (·.1) then s!"fail variants got={r.variants} want={d.enumerators.map (·.1)}" else
          let bad3 := r.tryFrom.findSome? fun (src, c) =>
            (cands.find? fun n => src.inRange n && (match r.tryFromF src c n with
              | some g => (match g, d.specTryFrom src n with
                  | .ok a, .ok b => a != b | .error a, .error b => a != b | _, _ => true)
              | none => false)).map fun n => (src, c, n)
          match bad3 with
          | some (src, c, n) =>
            let g := match r.tryFromF src c n with | some g => showExc g | none => "?"
            s!"fail try_from src={if src.signed then "i" else "u"}{src.bits} n={n} got={g} want={showExc (d.specTryFrom src n)}"
          | none => "fail nowitness"
  | _ => "bad-op"

/-! ## specification-side answers for the correspondence of flags and enums -/
def pairSN (s : String) : Option (String × Nat) := match s.splitOn ":" with
  | [a, b] => do let b ← b.toNat?; pure (a, b)
  | _ => none

/-- `flagspec <w> <zav> <raw> <rhs> NAME:value ...` — what the property demands, in the harness' output format -/
def flagSpec (w : Nat) (zav : Bool) (raw rhs : Nat) (ens : List (String × Nat)) : String :=
  let m := 2 ^ w
  let x := raw % m
  let r := rhs % m
  let allV := ens.foldl (fun acc p => acc ||| (p.2 % m)) 0
  let head := s!"new={x} empty=0 isempty={x == 0} all={allV} and={x &&& r} or={x ||| r} xor={x ^^^ r} anda={x &&& r} ora={x ||| r} xora={x ^^^ r}"
  let per := ens.filter (fun p => p.2 % m != 0) |>.map fun (n, v) =>
    let v := v % m
    let isq := (x &&& v != 0) || (zav && x == 0)
    let cl := x &&& (m - 1 - v)
    s!" {n}:is={isq},new={v},set={x ||| v},{x ||| v},clear={cl},{cl}"
  let cs := ens.map fun (n, v) => s!" const:{n}={v % m}"
  head ++ String.join per ++ String.join cs

open Enum in
/-- value-preserving, or bitwise for a same-width integer of the other signedness -/
def flagConvSpec (w : Nat) (src : IntTy) (n : Int) : String :=
  let base : IntTy := ⟨w, false⟩
  if !src.inRange n then "skip" else
  if src.bits = w ∧ src.signed then s!"some {reinterp base n}"
  else if base.inRange n then s!"some {n}" else "none"

open Enum in
def enumSpec (ws : List String) : String :=
  match splitSections ws with
  | [[sb, ss, n], [bb, bs], wen] =>
    match sb.toNat?, n.toInt?, bb.toNat?, wen.mapM pairNI with
    | some sb, some n, some bb, some wen =>
      let src : IntTy := ⟨sb, ss == "1"⟩
      let d : WowmEnum := { name := 0, base := ⟨bb, bs == "1"⟩, enumerators := wen }
      if !src.inRange n then "skip" else
      match d.specTryFrom src n with
      | .ok v => s!"ok {v} {match d.enumerators.lookup v with | some x => x | none => 0}"
      | .error e => s!"err {e}"
    | _, _, _, _ => "bad-op"
  | _ => "bad-op"

/-! ## framing -/
def hexDigit (n : Nat) : Char := if n < 10 then Char.ofNat (48 + n) else Char.ofNat (87 + n)
def hexOf (bs : List UInt8) : String :=
  String.ofList (bs.flatMap fun x => [hexDigit (x.toNat / 16), hexDigit (x.toNat % 16)])
def unhexDigit (c : Char) : Option Nat :=
  if '0' ≤ c ∧ c ≤ '9' then some (c.toNat - 48) else if 'a' ≤ c ∧ c ≤ 'f' then some (c.toNat - 87)
  else if 'A' ≤ c ∧ c ≤ 'F' then some (c.toNat - 55) else none
def unhex (s : String) : Option (List UInt8) :=
  if s == "-" then some [] else
  let rec go : List Char → Option (List UInt8)
    | [] => some []
    | [_] => none
    | a :: c :: r => do let x ← unhexDigit a; let y ← unhexDigit c; let t ← go r; pure (UInt8.ofNat (x * 16 + y) :: t)
  go s.toList

def patBody (len fill : Nat) : List UInt8 := (List.range len).map fun i => UInt8.ofNat (fill + i % 251)

open Frame in
def parseExp : String → Option Exp
  | "vanilla" => some .vanilla | "tbc" => some .tbc | "wrath" => some .wrath | _ => none
open Frame in
def parseDir : String → Option Dir
  | "client" => some .client | "server" => some .server | _ => none
open Frame in
def parseApi : String → Option Api
  | "enum" => some .opcodeEnum | "expect" => some .expect | _ => none
open Frame in
def wardenOp (d : Dir) : Nat := match d with | .server => 0x2e6 | .client => 0x2e7

open Frame in
def wframe (e : Exp) (d : Dir) (len fill : Nat) : String :=
  let body := patBody len fill
  match writeFrame e d (wardenOp d) body with
  | .ok v =>
    let hl := v.length - len
    s!"ok hdr={hexOf (v.take hl)} total={v.length} bodyok={if v.drop hl == body then 1 else 0}"
  | .error _ => "abort panic"

open Frame in
/-- the WARDEN_DATA body codec: `u8[-]`, at most 65535 bytes -/
def wardenRead (api : Api) (e : Exp) (d : Dir) (bs : List UInt8) : Except String (List UInt8 × List UInt8) :=
  match readFrame api e d bs with
  | .error _ => .error "err io"
  | .ok ((op, body), rest) =>
    if op != wardenOp d then .error s!"err opcode {op} {body.length}"
    else if body.length > 65535 then .error "err parse size"
    else .ok (body, rest)

open Frame in
def rframe (e : Exp) (d : Dir) (api : Api) (hdr : List UInt8) (len fill extra : Nat) : String :=
  let body := patBody len fill
  let stream := hdr ++ body ++ List.replicate extra 0xEE
  match wardenRead api e d stream with
  | .ok (got, rest) => s!"ok op={wardenOp d} bodylen={got.length} bodyok={if got == body then 1 else 0} consumed={stream.length - rest.length}"
  | .error msg => msg

open Frame in
def seqFrames (e : Exp) (d : Dir) (api : Api) (lens : List Nat) : String :=
  let bodies := (List.range lens.length).zip lens |>.map fun (i, l) => patBody l i
  match writeAll e d (bodies.map fun bd => (wardenOp d, bd)) with
  | none =>
    -- report the first message whose write aborts
    match (List.range bodies.length).zip bodies |>.find? (fun (_, bd) => match writeFrame e d (wardenOp d) bd with | .ok _ => false | .error _ => true) with
    | some (i, _) => s!"write-failed {i} abort panic"
    | none => "write-failed ?"
  | some stream =>
    let rec go (fuel : Nat) (todo : List (List UInt8)) (cur : List UInt8) (acc : String) : String :=
      match fuel, todo with
      | _, [] => acc ++ s!" end={stream.length}"
      | 0, _ => acc
      | fuel + 1, bd :: r =>
        match wardenRead api e d cur with
        | .ok (got, rest) =>
          go fuel r rest (acc ++ s!" {got.length}{if got == bd then "" else "!"}@{stream.length - rest.length}")
        | .error msg => acc ++ s!" then {msg} at ?"
    go (bodies.length + 1) bodies stream "ok"

/-! ## the expect helpers asked for another type (Model/FrameExpect.lean, Thm/C02b.lean) -/
open Frame in
def otherOp (d : Dir) : Nat := match d with | .server => 0x1DD | .client => 0x1DC      -- SMSG_PONG / CMSG_PING

open Frame in
def rframeOther (e : Exp) (d : Dir) (hdr : List UInt8) (len fill extra : Nat) : String :=
  let body := patBody len fill
  let stream := hdr ++ body ++ List.replicate extra 0xEE
  match expectFrame (otherOp d) e d stream with
  | .ok (.other op size, rest) => s!"err opcode {op} {size} consumed={stream.length - rest.length}"
  | .ok (.got _, rest) => s!"err unexpected-ok consumed={stream.length - rest.length}"
  | .error _ => "err io"

open Frame in
/-- every second message is asked for as another type -/
def seqFramesOther (e : Exp) (d : Dir) (lens : List Nat) : String :=
  let bodies := (List.range lens.length).zip lens |>.map fun (i, l) => patBody l i
  match writeAll e d (bodies.map fun bd => (wardenOp d, bd)) with
  | none => "write-failed ?"
  | some stream =>
    let wants := (List.range bodies.length).map fun i => if i % 2 == 1 then otherOp d else wardenOp d
    match expectN e d wants stream with
    | .error _ => "ok then err io at ?"
    | .ok (rs, rest) =>
      -- positions: re-run call by call to report where each call left the stream
      let rec go (fuel : Nat) (ws : List Nat) (bds : List (List UInt8)) (cur : List UInt8) (acc : String) : String :=
        match fuel, ws, bds with
        | fuel + 1, w :: ws', bd :: bds' =>
          match expectFrame w e d cur with
          | .ok (.got got, r) => go fuel ws' bds' r (acc ++ s!" {got.length}{if got == bd then "" else "!"}@{stream.length - r.length}")
          | .ok (.other _ _, r) => go fuel ws' bds' r (acc ++ s!" skip@{stream.length - r.length}")
          | .error _ => acc ++ " then err io at ?"
        | _, _, _ => acc ++ s!" end={stream.length}"
      if rs.length == bodies.length && rest.isEmpty then go (bodies.length + 1) wants bodies stream "ok" else "ok then short"

/-! ## geometry -/
/-- decimal text -> Float (sign, digits, optional fraction, optional exponent) -/
def parseFloat? (s : String) : Option Float :=
  let s := s.trimAscii.toString
  let (neg, body) := if s.startsWith "-" then (true, (s.drop 1).toString) else (false, s)
  let (mant, exp) := match body.splitOn "e" with
    | [m, e] => (m, e.toInt?)
    | [m] => (m, some 0)
    | _ => ("", none)
  match exp with
  | none => none
  | some e =>
    let parts := mant.splitOn "."
    let r : Option (Nat × Nat) := match parts with
      | [i] => i.toNat?.map fun n => (n, 0)
      | [i, f] => do
          let n ← (if i.isEmpty then some 0 else i.toNat?)
          let fn ← (if f.isEmpty then some 0 else f.toNat?)
          pure (n * 10 ^ f.length + fn, f.length)
      | _ => none
    r.map fun (digits, scale) =>
      let e' : Int := e - scale
      let v := if e' ≥ 0 then Float.ofNat (digits * 10 ^ e'.toNat) else Float.ofNat digits / Float.ofNat (10 ^ (-e').toNat)
      if neg then -v else v

open Geometry in
def geoHandle (ws : List String) : Option String :=
  match ws with
  | ["geosq", px, py, pz, ox, oy, oz, l, w, h, yaw] => do
      let p : V3 Float := ⟨← parseFloat? px, ← parseFloat? py, ← parseFloat? pz⟩
      let o : V3 Float := ⟨← parseFloat? ox, ← parseFloat? oy, ← parseFloat? oz⟩
      let l ← parseFloat? l; let w ← parseFloat? w; let h ← parseFloat? h; let yaw ← parseFloat? yaw
      let r := isWithinSquare floatOps p o l w h yaw
      pure s!"{if r then "in" else "out"} margin={squareMargin p o l w h yaw}"
  | ["geocircle", cx, cy, cz, px, py, pz, r] => do
      let c : V3 Float := ⟨← parseFloat? cx, ← parseFloat? cy, ← parseFloat? cz⟩
      let p : V3 Float := ⟨← parseFloat? px, ← parseFloat? py, ← parseFloat? pz⟩
      let r ← parseFloat? r
      let d := distanceBetween floatOps c p
      pure s!"{if isWithinDistance floatOps c p r then "in" else "out"} margin={Float.abs (d - r)}"
  | ["geodist", ax, ay, az, bx, by_, bz] => do
      let a : V3 Float := ⟨← parseFloat? ax, ← parseFloat? ay, ← parseFloat? az⟩
      let b : V3 Float := ⟨← parseFloat? bx, ← parseFloat? by_, ← parseFloat? bz⟩
      pure s!"{distanceBetween floatOps a b}"
  | ["geodist2", ax, ay, bx, by_] => do
      pure s!"{distance2d floatOps (← parseFloat? ax) (← parseFloat? ay) (← parseFloat? bx) (← parseFloat? by_)}"
  | _ => none

/-! ## specification semantics of containers (C01 family) -/
structure DState where
  corpus : Std.HashMap String (Nat × Sem.Members) := {}
  wsprogs : Std.HashMap String Wireshark.Block := {}

/-! ### C17: token reader for dissector programs -/
namespace WsParse
open Wireshark

def enc? : String → Option Enc
  | "le" => some .le | "be" => some .be | "na" => some .na | _ => none

def nats (k : Nat) (ts : List String) : Option (List Nat × List String) :=
  if ts.length < k then none else ((ts.take k).mapM fun (t : String) => t.toNat?).map fun l => (l, ts.drop k)

def cond? : List String → Option (WCond × List String)
  | "s2c" :: r => some (.s2c, r)
  | "eq" :: v :: k :: r => match v.toNat?, k.toNat? with
      | some v, some k => (nats k r).map fun (l, r) => (.eq v l, r)
      | _, _ => none
  | "ne" :: v :: a :: r => match v.toNat?, a.toNat? with
      | some v, some a => some (.ne v a, r)
      | _, _ => none
  | "band" :: v :: k :: r => match v.toNat?, k.toNat? with
      | some v, some k => (nats k r).map fun (l, r) => (.band v l, r)
      | _, _ => none
  | _ => none

mutual
partial def block : List String → Option (Block × List String)
  | "end" :: r => some (.nil, r)
  | ts => match stmt ts with
      | some (s, r) => (block r).map fun (b, r) => (.cons s b, r)
      | none => none
partial def stmt : List String → Option (Stmt × List String)
  | "add" :: n :: e :: r => match n.toNat?, enc? e with | some n, some e => some (.add n e, r) | _, _ => none
  | "addv" :: v :: e :: r => match v.toNat?, enc? e with | some v, some e => some (.addv v e, r) | _, _ => none
  | "addrest" :: e :: r => (enc? e).map fun e => (.addrest e, r)
  | "ret" :: n :: e :: v :: r => match n.toNat?, enc? e, v.toNat? with | some n, some e, some v => some (.ret n e v, r) | _, _, _ => none
  | "cstr" :: r => some (.cstr, r)
  | "scstr" :: r => some (.scstr, r)
  | "str" :: r => some (.str, r)
  | "pguid" :: r => some (.pguid, r)
  | "prim" :: n :: r => some (.prim n, r)
  | "forc" :: n :: r => match n.toNat? with | some n => (block r).map fun (b, r) => (.forc n b, r) | none => none
  | "forv" :: v :: r => match v.toNat? with | some v => (block r).map fun (b, r) => (.forv v b, r) | none => none
  | "while" :: r => (block r).map fun (b, r) => (.whileNotEnd b, r)
  | "ifrest" :: r => (block r).map fun (b, r) => (.ifrest b, r)
  | "if" :: k :: r => match k.toNat? with | some k => (arms k r).map fun (a, r) => (.ifs a, r) | none => none
  | "ver" :: k :: r => match k.toNat? with | some k => (cases k r).map fun (c, r) => (.ver c, r) | none => none
  | _ => none
partial def arms : Nat → List String → Option (Arms × List String)
  | 0, r => (block r).map fun (b, r) => (.els b, r)
  | k + 1, r => match cond? r with
      | some (c, r) => match block r with
          | some (b, r) => (arms k r).map fun (a, r) => (.cons c b a, r)
          | none => none
      | none => none
partial def cases : Nat → List String → Option (Cases × List String)
  | 0, r => some (.nil, r)
  | k + 1, n :: r => match n.toNat?, block r with
      | some n, some (b, r) => (cases k r).map fun (c, r) => (.cons n b c, r)
      | _, _ => none
  | _, [] => none
end

/-- a whole program: statements up to the end of the token list -/
def program (ts : List String) : Option Block :=
  match block (ts ++ ["end"]) with
  | some (b, []) => some b
  | _ => none

def showEnc : Enc → String | .le => "le" | .be => "be" | .na => "na"
def showErr : WErr → String
  | .eof => "eof" | .unbound v => s!"unbound-{v}" | .noProgress => "noprogress" | .unsupported w => s!"unsupported-{w}" | .noCase v => s!"nocase-{v}"

/-- compare the walk of the dissector program with the trace the definition prescribes -/
def compare (ctx : Ctx) (p : Block) (spec : Trace) (bs : List UInt8) : String :=
  match run ctx p bs with
  | .error (.unsupported w) => s!"unsupported {w}"
  | .error e => s!"wserr {showErr e}"
  | .ok (tr, rest) =>
    if !rest.isEmpty then s!"left {rest.length} consumed={bs.length - rest.length}"
    else if traceEq spec tr then s!"ok same n={bs.length} fields={tr.length}"
    else
      let i := ((List.range (max spec.length tr.length)).find? fun i => match spec[i]?, tr[i]? with
        | some a, some b => !entryEq a b
        | _, _ => true).getD 0
      let sh := fun (x : Option (Nat × Enc)) => match x with | some (w, e) => s!"{w}:{showEnc e}" | none => "none"
      s!"diff at={i} spec={sh spec[i]?} ws={sh tr[i]?}"
end WsParse

def showErr : Sem.Err → String
  | .eof => "err eof"
  | .enumValue n => s!"err enum {n}"
  | .boolValue n => s!"err bool {n}"
  | .dateTime n => s!"err datetime {n}"
  | .level n => s!"err level {n}"
  | .string => "err string"
  | .noProgress => "err noprogress"
  | .unsupported w => s!"unsupported {w}"
  | .unboundVar i => s!"err unbound {i}"
  | .trailing n => s!"err trailing {n}"

/-! ### size functions (Model/SizeFn.lean): token reader / printer -/
namespace SzParse
open Sem
mutual
partial def term : List String → Option (SzT × List String)
  | "c" :: n :: r => n.toNat?.map fun n => (.const n, r)
  | "lp" :: k :: r => k.toNat?.map fun k => (.lenPlus k, r)
  | "pg" :: r => some (.pg, r)
  | "pr" :: n :: r => some (.prim n, r)
  | "lt" :: k :: r => k.toNat?.map fun k => (.lenTimes k, r)
  | "call" :: r => (terms r).map fun (ts, r) => (.call ts, r)
  | "fold" :: r => (term r).map fun (t, r) => (.fold t, r)
  | "opt" :: r => (terms r).map fun (ts, r) => (.opt ts, r)
  | "other" :: r => some (.other, r)
  | _ => none
partial def terms : List String → Option (SzTs × List String)
  | "end" :: r => some (.nil, r)
  | ts => match term ts with
      | some (t, r) => (terms r).map fun (ts, r) => (.cons t ts, r)
      | none => none
end
mutual
partial def showT : SzT → String
  | .const n => s!"c {n}" | .lenPlus k => s!"lp {k}" | .pg => "pg" | .prim n => s!"pr {n}" | .lenTimes k => s!"lt {k}"
  | .call ts => s!"call {showTs ts}end" | .fold t => s!"fold {showT t}" | .opt ts => s!"opt {showTs ts}end" | .other => "other"
partial def showTs : SzTs → String
  | .nil => ""
  | .cons t ts => s!"{showT t} {showTs ts}"
end
end SzParse

def loadLine (st : DState) (line : String) : DState :=
  match (line.trimAscii.toString.splitOn " ").filter (· ≠ "") with
  | "container" :: key :: op :: toks =>
    match op.toNat?, Sem.parseMembers toks with
    | some op, some (ms, []) => { st with corpus := st.corpus.insert key (op, ms) }
    | _, _ => st
  | "ws" :: name :: toks =>
    match WsParse.program toks with
    | some b => { st with wsprogs := st.wsprogs.insert name b }
    | none => st
  | _ => st

def semHandle (st : DState) (ws : List String) : Option String :=
  match ws with
  | ["wskeys"] => some s!"{st.wsprogs.size}"
  | ["chunkdef", key, sched] =>
    -- C06 (Thm/C06b.lean): the read_exact script compiled from the definition (after one opcode byte) run by the CHUNKED semantics over the
    -- given delivery schedule; `scriptable=0` when the definition needs to know where the input ends or mentions a built-in type
    match st.corpus.get? key with
    | some (_, c) =>
      let steps : Option (List (Option (List UInt8))) :=
        if sched == "-" then some [] else (sched.splitOn ",").mapM fun (t : String) => if t == "p" then some none else (unhex t).map some
      match steps with
      | none => some "bad-op"
      | some cs =>
        if !Chunk.scriptMs c then some "scriptable=0" else
        let total := (Chunk.flatten cs).length
        let script : Chunk.Dec (List Sem.Val) := .need 1 fun _ => Chunk.decodeD (total + 1) c
        match Chunk.runChunked script [] cs with
        | .ok (_, rest) => some s!"ok n={total - rest.length} scriptable=1"
        | .error .unexpectedEof => some "eof scriptable=1"
        | .error _ => some "err scriptable=1"
    | none => some "nokey"
  | ["session", e, d, items] =>
    -- C02 + C01 end to end (Model/Session.lean; Thm/C02c.lean): a stream of arbitrary messages — `g:key:seed:maxLen` a generated canonical
    -- value of container `key`, `u:opcode:len` a frame with an opcode outside the table, `x:key:hex` the opcode of `key` over the given
    -- body bytes — written by `writeFrame`, then read back by `Session.readMsg` until the stream ends
    match parseExp e, parseDir d with
    | some ex, some dr =>
      let kinds := if d == "client" then ["cmsg", "msg"] else ["smsg", "msg"]
      let entries : List (Nat × String × Sem.Members) := st.corpus.toList.filterMap fun ((k, (op, c)) : String × Nat × Sem.Members) =>
        match k.splitOn ":" with
        | [lib, kind, name] => if lib == e && kinds.contains kind && !(name.splitOn "#").length > 1 then some (op, name, c) else none
        | _ => none
      let table : Session.Table := entries.map fun (op, _, c) => (op, c)
      let nameOf (op : Nat) : String := match entries.find? (fun x => x.1 == op) with | some (_, n, _) => n | none => "?"
      let frames : Option (List (List UInt8)) := (items.splitOn ",").mapM fun (it : String) =>
        match it.splitOn ":" with
        | ["g", lib, kind, name, seed, maxLen] =>
          match st.corpus.get? s!"{lib}:{kind}:{name}", seed.toNat?, maxLen.toNat? with
          | some (op, c), some seed, some maxLen =>
            if (Sem.firstPrim c).isSome then none else
            match Sem.genContainer c seed maxLen 1000000 with
            | some vs => match Sem.encode c vs with
              | some body => match Frame.writeFrame ex dr op body with | .ok f => some f | .error _ => none
              | none => none
            | none => none
          | _, _, _ => none
        | ["u", op, len] =>
          match op.toNat?, len.toNat? with
          | some op, some len => match Frame.writeFrame ex dr op (List.replicate len 0x5A) with | .ok f => some f | .error _ => none
          | _, _ => none
        | ["x", lib, kind, name, hex] =>
          match st.corpus.get? s!"{lib}:{kind}:{name}", (if hex == "-" then some [] else unhex hex) with
          | some (op, _), some body => match Frame.writeFrame ex dr op body with | .ok f => some f | .error _ => none
          | _, _ => none
        | _ => none
      match frames with
      | none => some "bad-item"
      | some fs =>
        let stream := fs.foldl (· ++ ·) []
        let rec go (fuel : Nat) (bs : List UInt8) (acc : String) : String :=
          match fuel with
          | 0 => acc
          | fuel + 1 =>
            if bs.isEmpty then acc else
            match Session.readMsg .opcodeEnum ex dr table bs with
            | .error _ => acc ++ s!" io@{stream.length - bs.length}"
            | .ok (o, rest) =>
              let pos := stream.length - rest.length
              let t := match o with
                | .msg op _ => s!" {nameOf op}@{pos}"
                | .unknownOpcode op => s!" unknown:{op}@{pos}"
                | .badBody op (.unsupported _) => s!" prim:{nameOf op}@{pos}"
                | .badBody _ _ => s!" bad@{pos}"
              go fuel rest (acc ++ t)
        some s!"{if stream.isEmpty then "-" else hexOf stream} {go (fs.length + 1) stream "ok"} end={stream.length}"
    | _, _ => some "bad-op"
  | ["primkind", name] =>
    -- parameters of the built-in codec the semantics uses for the type `name` (compared with the hand-written Rust by tools/manual_codecs.py)
    let bl : Sem.BLeaf → String
      | .u8 => "u8" | .u16 => "u16" | .u32 => "u32" | .pg => "pg" | .bool32 => "bool32" | .dt => "dt"
    some (match Sem.primKind name with
      | .mask w ls => s!"mask {w} {8 * w} {",".intercalate (ls.map bl)}"
      | .gear => s!"mask 4 32 u32,mask:2:16:u16,{",".intercalate (Sem.gearTail.map bl)}"
      | .namedGuid => "namedguid"
      | .virp => "virp"
      | .achDone => s!"sentinel {",".intercalate (Sem.achDoneFields.map bl)}"
      | .achProg => s!"sentinel {",".intercalate (Sem.achProgFields.map bl)}"
      | .splines => "splines"
      | .updateMask => "updatemask"
      | .other => "other")
  | "sizeeq" :: key :: toks =>
    -- C07 / C01 (code side): is the term list translated from the generated Rust `size()` the one the definition prescribes?
    -- (Model/SizeFn.lean `sizeMatches`, Thm/C07b.lean `size_matches_sound`)
    match st.corpus.get? key, SzParse.terms (toks ++ ["end"]) with
    | some (_, c), some (ts, []) =>
      if Sem.sizeMatches c ts then some s!"same wf={if Sem.wfMs c then 1 else 0} supported={if Sem.supportedS ts then 1 else 0}"
      else some s!"differ supported={if Sem.supportedS (Sem.szMs c) then 1 else 0} expected={SzParse.showTs (Sem.szMs c)}"
    | none, _ => some "nokey"
    | _, _ => some "bad-terms"
  | ["progeq", kind, specKey, rustKey] =>
    -- C01 / C03 / C04 (code side): is the program translated from the generated Rust writer (`w`) / reader (`r`) the per-enumerator
    -- normal form of the program translated from the wowm definition (for readers: with the roles erased)?
    -- (Model/SemNorm.lean `writerMatches` / `readerMatchesE`, Thm/C01b-d.lean)
    match st.corpus.get? specKey, st.corpus.get? rustKey with
    | some (_, s), some (_, r) =>
      let ok := if kind == "w" then Sem.writerMatches s r else Sem.readerMatchesE s r
      if ok then
        some s!"same wf={if Sem.wfMs s then 1 else 0} prim={if (Sem.firstPrim r).isSome then 1 else 0}"
      else some "differ"
    | none, _ => some "nokey-spec"
    | _, none => some "nokey-rust"
  | ["wsflat", name, key] =>
    -- C17: the verified static matcher (Thm/C17c.lean flat_sound): `flat` = the definition is inside the straight-line fragment,
    -- `match` = the dissector program walks every canonical encoding of it exactly (all values, by the theorem)
    match st.wsprogs.get? name, st.corpus.get? key with
    | some p, some (_, c) =>
      let m0 := Wireshark.flatMatchesDir { s2c := false } c p
      let m1 := Wireshark.flatMatchesDir { s2c := true } c p
      some s!"flat={if Wireshark.isFlat c then 1 else 0} match={if Wireshark.flatMatches c p then 1 else 0} c2s={if m0 then 1 else 0} s2c={if m1 then 1 else 0}"
    | none, _ => some "nows"
    | _, none => some "nokey"
  | ["wsmatch", name, key, ver] =>
    -- the same for login cases (inside a `switch (protocol_version)`): Thm/C17d.lean walk_ends_login
    match st.wsprogs.get? name, st.corpus.get? key, ver.toNat? with
    | some p, some (_, c), some ver =>
      let m0 := Wireshark.walkMatches c (Wireshark.dirBody { s2c := false, version := ver } (Wireshark.verBody { s2c := false, version := ver } p))
      let m1 := Wireshark.walkMatches c (Wireshark.dirBody { s2c := true, version := ver } (Wireshark.verBody { s2c := true, version := ver } p))
      some s!"wf={if Sem.wfMs c then 1 else 0} c2s={if m0 then 1 else 0} s2c={if m1 then 1 else 0}"
    | none, _, _ => some "nows"
    | _, none, _ => some "nokey"
    | _, _, _ => some "bad-op"
  | ["wsmatch", name, key] =>
    -- C17: the verified structural matcher (Thm/C17d.lean walk_ends / walk_ends_dir): arrays, conditionals, nested structs, optional tails.
    -- Program variables and definition fields carry the same numbers (both by field name); `match` covers all values of a well-formed definition
    match st.wsprogs.get? name, st.corpus.get? key with
    | some p, some (_, c) =>
      let m0 := Wireshark.walkMatches c (Wireshark.dirBody { s2c := false } p)
      let m1 := Wireshark.walkMatches c (Wireshark.dirBody { s2c := true } p)
      some s!"wf={if Sem.wfMs c then 1 else 0} c2s={if m0 then 1 else 0} s2c={if m1 then 1 else 0}"
    | none, _ => some "nows"
    | _, none => some "nokey"
  | ["trace", key, hex] =>
    -- C18: the field boundaries the definition prescribes for these bytes, and the groups cut at them
    match st.corpus.get? key, unhex hex with
    | some (_, c), some bs =>
      match Sem.firstPrim c with
      | some w => some s!"unsupported {w}"
      | none =>
        match Sem.decode c bs with
        | .error e => some s!"specerr {showErr e}"
        | .ok vs => match Wireshark.trMembers c [] vs with
          | some (tr, _) =>
            let ws := tr.map (·.1)
            let gs := Example.splitBy ws bs
            some s!"ok widths={",".intercalate (ws.map toString)} total={ws.sum} len={bs.length} groups={",".intercalate (gs.map fun g => if g.isEmpty then "-" else hexOf g)}"
          | none => some "tracefail"
    | none, _ => some "nokey"
    | _, _ => some "bad-op"
  | ["wsrun", name, s2c, ver, key, seed, maxLen, sample] =>
    -- C17: generate a canonical value of container `key`, encode it, walk it with dissector program `name`
    match st.wsprogs.get? name, st.corpus.get? key, seed.toNat?, maxLen.toNat?, sample.toNat?, ver.toNat? with
    | some p, some (_, c), some seed, some maxLen, some sample, some ver =>
      -- containers with built-in types outside the generic semantics are walked on the values whose taken branches avoid them
      -- (a value that reaches such a type cannot be generated / encoded: `unsupported`)
      let prim := Sem.firstPrim c
      if prim.isNone && !Sem.wfMs c then some "notwf" else
      match Sem.genContainer c seed maxLen sample with
      | none => some (match prim with | some w => s!"unsupported {w}" | none => "genfail")
      | some vs => match Sem.encode c vs, Wireshark.trMembers c [] vs with
        | some b, some (tr, _) => some s!"{WsParse.compare { s2c := s2c == "1", version := ver } p tr b} hex={if b.isEmpty then "-" else hexOf b}"
        | _, _ => some (match prim with | some w => s!"unsupported {w}" | none => "encfail")
    | none, _, _, _, _, _ => some "nows"
    | _, none, _, _, _, _ => some "nokey"
    | _, _, _, _, _, _ => some "bad-op"
  | ["wsbytes", name, s2c, ver, key, hex] =>
    -- the same on given bytes (test vectors, replays): the specification trace comes from decoding them
    match st.wsprogs.get? name, st.corpus.get? key, unhex hex, ver.toNat? with
    | some p, some (_, c), some bs, some ver =>
      match Sem.decode c bs with
      | .error e => some s!"specerr {showErr e}"
      | .ok vs => match Wireshark.trMembers c [] vs with
        | some (tr, _) => some (WsParse.compare { s2c := s2c == "1", version := ver } p tr bs)
        | none => some "tracefail"
    | none, _, _, _ => some "nows"
    | _, none, _, _ => some "nokey"
    | _, _, _, _ => some "bad-op"
  | "gen" :: key :: seed :: rest =>
    match st.corpus.get? key, seed.toNat? with
    | some (_, c), some seed =>
      match Sem.firstPrim c with
      | some p => some s!"unsupported {p}"
      | none =>
        if !Sem.wfMs c then some "notwf" else
        let maxLen := match rest with | m :: _ => m.toNat?.getD 4 | _ => 4
        let sample := match rest with | [_, k] => k.toNat?.getD 1000000 | _ => 1000000
        match Sem.genContainer c seed maxLen sample with
        | none => some "genfail"
        | some vs => match Sem.encode c vs with
          | none => some "encfail"
          | some b => some s!"ok {if b.isEmpty then "-" else hexOf b}"
    | none, _ => some "nokey"
    | _, _ => some "bad-op"
  | "within" :: key :: seed :: rest =>
    -- the value `gen` produces for the same arguments: does it satisfy the hypothesis of bounds_hi_sound, and how long is its encoding
    match st.corpus.get? key, seed.toNat? with
    | some (_, c), some seed =>
      match Sem.firstPrim c with
      | some p => some s!"unsupported {p}"
      | none =>
        if !Sem.wfMs c then some "notwf" else
        let maxLen := match rest with | m :: _ => m.toNat?.getD 4 | _ => 4
        let sample := match rest with | [_, k] => k.toNat?.getD 1000000 | _ => 1000000
        match Sem.genContainer c seed maxLen sample with
        | none => some "genfail"
        | some vs => match Sem.encode c vs with
          | none => some "encfail"
          | some b => some s!"ok within={if Sem.WithinLimits {} c vs then 1 else 0} len={b.length}"
    | none, _ => some "nokey"
    | _, _ => some "bad-op"
  | ["dec", key, hex] =>
    match st.corpus.get? key, unhex hex with
    | some (_, c), some bs =>
      match Sem.firstPrim c with
      | some p => some s!"unsupported {p}"
      | none =>
        match Sem.decode c bs with
        | .error e => some (showErr e)
        | .ok vs => match Sem.encode c vs with
          | none => some "ok-noncanonical"
          | some b => some s!"ok {if b.isEmpty then "-" else hexOf b} n={b.length}"
    | none, _ => some "nokey"
    | _, _ => some "bad-op"
  | ["genbad", key, seed, at_, mode] =>
    match st.corpus.get? key, seed.toNat?, at_.toNat?, mode.toNat? with
    | some (_, c), some seed, some at_, some mode =>
      match Sem.firstPrim c with
      | some p => some s!"unsupported {p}"
      | none =>
        match Sem.genCorrupt c seed at_ mode with
        | none => some "genfail"
        | some (_, none) => some "nosite"
        | some (vs, some (bad, k)) =>
          match Sem.encode (Sem.loosenMs c) vs with
          | none => some "encfail"
          | some b =>
            -- what the specification decoder says about the corrupted bytes
            let verdict := match Sem.decode c b with | .error e => showErr e | .ok _ => "ok"
            some s!"ok {if b.isEmpty then "-" else hexOf b} bad={bad} wire={k} spec={verdict.replace " " "_"}"
    | none, _, _, _ => some "nokey"
    | _, _, _, _ => some "bad-op"
  | ["genmin", key, tries] =>
    match st.corpus.get? key, tries.toNat? with
    | some (_, c), some tries =>
      match Sem.firstPrim c with
      | some p => some s!"unsupported {p}"
      | none =>
        let best := (List.range tries).foldl (fun (acc : Option (List UInt8)) seed =>
          match Sem.genContainer c (seed * 2654435761 + 17) 0 with
          | none => acc
          | some vs => match Sem.encode c vs with
            | none => acc
            | some b => match acc with
              | some a => if b.length < a.length then some b else acc
              | none => some b) none
        match best with
        | some b => some s!"ok {if b.isEmpty then "-" else hexOf b}"
        | none => some "genfail"
    | none, _ => some "nokey"
    | _, _ => some "bad-op"
  | ["bounds", key] =>
    match st.corpus.get? key with
    | some (_, c) =>
        -- built-in types contribute the extremal lengths of their hand-written codecs (`primBounds`)
        let b := Sem.bounds {} c
        some s!"lo={b.lo} hi={match b.hi with | some h => toString h | none => "inf"} fixed={match Sem.fixedMs c with | some n => toString n | none => "no"} prim={match Sem.firstPrim c with | some p => p | none => "-"}"
    | none => some "nokey"
  | ["fixed", key] =>
    match st.corpus.get? key with
    | some (_, c) => match Sem.firstPrim c with
      | some p => some s!"unsupported {p}"
      | none => match Sem.fixedMs c with | some n => some s!"some {n}" | none => some "none"
    | none => some "nokey"
  | ["enumread", wire, "direct", w] =>
    match wire.toNat?, w.toNat? with
    | some wire, some w => some (if Sem.enumReadOk wire (.direct w) then "ok" else "fail")
    | _, _ => some "bad-op"
  | ["enumread", wire, "cast", w, b] =>
    match wire.toNat?, w.toNat?, b.toNat? with
    | some wire, some w, some b => some (if Sem.enumReadOk wire (.castThenTry w b) then "ok" else s!"fail alias=+{256 ^ b}")
    | _, _, _ => some "bad-op"
  | ["keys"] => some s!"{st.corpus.size}"
  | _ => none

/-! ## update mask -/
open UpdateMask in
def parseUmOp (s : String) : Option Op :=
  let body := (s.drop 1).toString
  match (s.take 1).toString, body.splitOn ":" with
  | "s", [b, v] => do pure (.set (← b.toNat?) (← v.toNat?))
  | "g", [b, lo, hi] => do pure (.guid (← b.toNat?) (← lo.toNat?) (← hi.toNat?))
  | "r", _ => some .dirtyReset
  | "m", _ => some .markFullyDirty
  | _, _ => none

open UpdateMask in
def umHandle (ws : List String) : Option String :=
  match ws with
  | ["umask", ty, ops] =>
    match ty.toNat?, (ops.splitOn ",").mapM parseUmOp with
    | some ty, some ops =>
      let s := ops.foldl step (new ty)
      let gets := (s.values.map fun (k, v) => s!"{k}={v}")
      some s!"ok {hexOf (write s)} size={size s} blocks={s.nblocks} type={if sent s 2 then 1 else 0} values={" ".intercalate gets}"
    | _, _ => some "bad-op"
  | _ => none

/-- prefix tokens of a cfg formula: T | F<n> | N x | A x y | O x y -/
partial def parseCfg : List String → Option (WowVerif.Cfg.F × List String)
  | "T" :: r => some (.tt, r)
  | "N" :: r => match parseCfg r with
      | some (x, r) => some (.not x, r)
      | none => none
  | "A" :: r => match parseCfg r with
      | some (x, r) => match parseCfg r with
        | some (y, r) => some (.and x y, r)
        | none => none
      | none => none
  | "O" :: r => match parseCfg r with
      | some (x, r) => match parseCfg r with
        | some (y, r) => some (.or x y, r)
        | none => none
      | none => none
  | t :: r => if t.startsWith "F" then (t.drop 1).toNat?.map (fun n => (WowVerif.Cfg.F.feat n, r)) else none
  | [] => none

def parseCfgRef (t : String) : Option WowVerif.Cfg.Ref :=
  match t.splitOn ">" with
  | [a, b] => match parseCfg (a.splitOn "."), parseCfg (b.splitOn ".") with
      | some (x, []), some (y, []) => some ⟨x, y⟩
      | _, _ => none
  | _ => none

def handle (ws : List String) : String :=
  match ws with
  | "cfgcheck" :: n :: imp :: refs =>
      -- C19: the verified cfg-closure checker on guards / references re-extracted from the sources
      let impL : Option (List (Nat × Nat)) := if imp == "-" then some [] else (imp.splitOn ",").mapM fun p => match p.splitOn ":" with
        | [a, b] => match a.toNat?, b.toNat? with | some a, some b => some (a, b) | _, _ => none
        | _ => none
      match n.toNat?, impL, refs.mapM parseCfgRef with
      | some n, some impL, some rs =>
        if !WowVerif.Cfg.wellFormed n impL rs then "notwf"
        else if WowVerif.Cfg.checkAll n impL rs then s!"ok 1 refs={rs.length} assignments={2 ^ n}"
        else
          -- name the first reference and assignment that fail
          let bad := (WowVerif.Cfg.allEnvs n).findSome? fun l =>
            if WowVerif.Cfg.consistent impL (WowVerif.Cfg.envOf l) then
              ((List.range rs.length).find? fun i => !(WowVerif.Cfg.refOk (WowVerif.Cfg.envOf l) (rs.getD i default))).map fun i => (i, l)
            else none
          match bad with
          | some (i, l) => s!"ok 0 ref={i} on={" ".intercalate (((List.range n).filter fun k => l.getD k false).map toString)}"
          | none => "ok 0"
      | _, _, _ => "bad-op"
  | ["dt", n] => match n.toNat? with
      | some v => if v < 4294967296 then DateTime.render v else "bad-op"
      | none => "bad-op"
  | ["dtspec", n] => match n.toNat? with
      | some v => if decide (DateTime.validSpec v) then "valid" else "invalid"
      | none => "bad-op"
  | ["dtsweep", a, b] => match a.toNat?, b.toNat? with
      | some lo, some hi => let (h, k) := dtSweep lo hi; s!"digest {h} ok={k}"
      | _, _ => "bad-op"
  | ["dtfields", a, b] => match a.toNat?, b.toNat? with
      | some lo, some hi => let (h, k) := dtFieldSweep lo hi; s!"digest {h} ok={k}"
      | _, _ => "bad-op"
  | ["wframe", e, d, len, fill] =>
      match parseExp e, parseDir d, len.toNat?, fill.toNat? with
      | some e, some d, some len, some fill => wframe e d len fill
      | _, _, _, _ => "bad-op"
  | ["rframe", e, d, "expectother", hdr, len, fill, extra] =>
      match parseExp e, parseDir d, unhex hdr, len.toNat?, fill.toNat?, extra.toNat? with
      | some e, some d, some hdr, some len, some fill, some extra => rframeOther e d hdr len fill extra
      | _, _, _, _, _, _ => "bad-op"
  | ["seq", e, d, "expectother", lens] =>
      match parseExp e, parseDir d, (lens.splitOn ",").mapM (·.toNat?) with
      | some e, some d, some lens => seqFramesOther e d lens
      | _, _, _ => "bad-op"
  | ["rframe", e, d, api, hdr, len, fill, extra] =>
      match parseExp e, parseDir d, parseApi api, unhex hdr, len.toNat?, fill.toNat?, extra.toNat? with
      | some e, some d, some api, some hdr, some len, some fill, some extra => rframe e d api hdr len fill extra
      | _, _, _, _, _, _, _ => "bad-op"
  | ["embeds", a, b] =>
      -- C14: the verified embedding check on two schemas re-derived from the wowm sources; `name:kind:width` triples
      let parse (t : String) : Option (List (Nat × Nat × Nat)) :=
        if t == "-" then some [] else (t.splitOn ",").mapM fun p => match p.splitOn ":" with
          | [x, y, z] => match x.toNat?, y.toNat?, z.toNat? with | some x, some y, some z => some (x, y, z) | _, _, _ => none
          | _ => none
      match parse a, parse b with
      | some a, some b =>
        if WowVerif.View.embedsOk a b then s!"ok 1 extra={(WowVerif.View.extraOf a b).length}"
        else s!"ok 0 missing={" ".intercalate ((a.filter fun f => !(b.any fun g => g.1 == f.1 && g.2.1 == f.2.1 && f.2.2 ≤ g.2.2)).map fun f => s!"{f.1}:{f.2.1}:{f.2.2}")}"
      | _, _ => "bad-op"
  | ["chunkframe", e, d, sched] =>
      -- C06: the frame reader script run by the chunked semantics over the given delivery schedule
      let steps : Option (List (Option (List UInt8))) :=
        if sched == "-" then some [] else (sched.splitOn ",").mapM fun t => if t == "p" then some none else (unhex t).map some
      match parseExp e, parseDir d, steps with
      | some e, some d, some cs =>
        match WowVerif.Chunk.runChunked (WowVerif.Chunk.frameDec e d) [] cs with
        | .ok ((op, body), rest) => s!"ok op={op} body={if body.isEmpty then "-" else hexOf body} n={(WowVerif.Chunk.flatten cs).length - rest.length}"
        | .error .unexpectedEof => "eof"
        | .error (.other c) => s!"err {c}"
      | _, _, _ => "bad-op"
  | ["seq", e, d, api, lens] =>
      match parseExp e, parseDir d, parseApi api, (lens.splitOn ",").mapM (·.toNat?) with
      | some e, some d, some api, some lens => seqFrames e d api lens
      | _, _, _, _ => "bad-op"
  | "enumck" :: rest => enumCk rest
  | "enumspec" :: rest => enumSpec rest
  | "flagspec" :: w :: zav :: raw :: rhs :: ens =>
      match w.toNat?, raw.toNat?, rhs.toNat?, ens.mapM pairSN with
      | some w, some raw, some rhs, some ens => flagSpec w (zav == "1") raw rhs ens
      | _, _, _, _ => "bad-op"
  | ["flagconvspec", w, sb, ss, n] =>
      match w.toNat?, sb.toNat?, n.toInt? with
      | some w, some sb, some n => flagConvSpec w ⟨sb, ss == "1"⟩ n
      | _, _, _ => "bad-op"
  | "flagitem" :: w :: role :: v :: allV :: zav :: body =>
      match w.toNat?, parseRole role, v.toNat?, allV.toNat?, parseBody body with
      | some w, some role, some v, some allV, some body => flagItem w role v allV (zav == "1") body
      | _, _, _, _, _ => "bad-op"
  | _ => match geoHandle ws with
    | some r => r
    | none => match umHandle ws with
      | some r => r
      | none => "bad-op"

end WowVerif.Driver
