/-
Line-protocol driver: one request per line on stdin, one reply per line on stdout.
Answers come from the executable model only.  Import-free apart from model files (links natively).
-/
import WowVerif.Model.DateTime
namespace WowVerif.Driver

def fnvStep (h : UInt64) (x : UInt64) : UInt64 := (h ^^^ x) * 0x100000001b3

/-- digest of DateTime outcomes over `[lo, hi)` -/
def dtSweep (lo hi : Nat) : UInt64 × Nat := Id.run do
  let mut h : UInt64 := 0xcbf29ce484222325
  let mut oks := 0
  for v in [lo:hi] do
    let c := DateTime.outcomeCode v
    if c % 8 == 1 then oks := oks + 1
    h := fnvStep h c
  return (h, oks)

/-- digest over all (year, month, day, weekday) field combinations in `[lo,hi)` (21 bits: bits 11..31 of the value)
crossed with 16 (hour, minute) corner pairs. -/
def dtCorners : List Nat := [0, 1, 59, 60, 63, 23 * 64, 23 * 64 + 59, 24 * 64, 24 * 64 + 59, 31 * 64 + 63,
  12 * 64 + 34, 23 * 64 + 60, 24 * 64 + 60, 31 * 64, 5 * 64 + 61, 17 * 64 + 30]

def dtFieldSweep (lo hi : Nat) : UInt64 × Nat := Id.run do
  let mut h : UInt64 := 0xcbf29ce484222325
  let mut oks := 0
  for f in [lo:hi] do
    for c in dtCorners do
      let v := f * 2048 + c
      let code := DateTime.outcomeCode v
      if code % 8 == 1 then oks := oks + 1
      h := fnvStep h code
  return (h, oks)

def handle (ws : List String) : String :=
  match ws with
  | ["dt", n] => match n.toNat? with
      | some v => if v < 4294967296 then DateTime.render v else "bad-op"
      | none => "bad-op"
  | ["dtspec", n] => match n.toNat? with
      | some v => if decide (DateTime.validSpec v) then "valid" else "invalid"
      | none => "bad-op"
  | ["dtsweep", a, b] => match a.toNat?, b.toNat? with
      | some lo, some hi => let (h, k) := dtSweep lo hi; s!"digest {h} ok={k}"
      | _, _ => "bad-op"
  | ["dtfields", a, b] => match a.toNat?, b.toNat? with
      | some lo, some hi => let (h, k) := dtFieldSweep lo hi; s!"digest {h} ok={k}"
      | _, _ => "bad-op"
  | _ => "bad-op"

end WowVerif.Driver
