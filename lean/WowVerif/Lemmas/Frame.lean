/- Helper lemmas for Thm/C02.lean (byte arithmetic of headers; one lemma per header form). -/
import WowVerif.Model.Frame
namespace WowVerif.Frame
theorem b_toNat (n : Nat) : (b n).toNat = n % 256 := by
  simp [b, UInt8.toNat_ofNat']
theorem or_128 : ∀ x, x < 128 → x ||| 0x80 = x + 128 := by decide
theorem take?_append' (n : Nat) (xs rest : Bytes) (h : xs.length = n) : take? n (xs ++ rest) = .ok (xs, rest) := by
  subst h; simp [take?]

theorem u16Total_ok (n h : Nat) (hn : n + h < 65536) : u16Total n h = .ok (n + h) := by
  have : n % 65536 = n := Nat.mod_eq_of_lt (by omega)
  simp [u16Total, this, hn]

theorem u16Total_overflow (n h : Nat) (hn : n < 65536) (ho : 65536 ≤ n + h) : u16Total n h = .error .overflow := by
  have : n % 65536 = n := Nat.mod_eq_of_lt hn
  simp [u16Total, this]; omega

theorem wrath_large (op n : Nat) (h : n + 2 > 32767) :
    wrathServerSize n = n + 5 ∧ wrathServerHeader op (n + 5) =
      [b (((n + 2) / 65536) % 256 ||| 0x80), b ((n + 2) / 256), b (n + 2), b op, b (op / 256)] := by
  constructor
  · unfold wrathServerSize MINIMUM_SIZE_LENGTH LARGE_MESSAGE_THRESHOLD MAXIMUM_SERVER_HEADER_LENGTH MINIMUM_SERVER_HEADER_LENGTH
    split <;> omega
  · unfold wrathServerHeader LARGE_MESSAGE_THRESHOLD MINIMUM_SIZE_LENGTH MAXIMUM_SIZE_LENGTH
    split
    · have h2 : n + 5 - 3 = n + 2 := by omega
      rw [h2]
    · omega

theorem wrath_small (op n : Nat) (h : ¬ n + 2 > 32767) :
    wrathServerSize n = n + 4 ∧ wrathServerHeader op (n + 4) = [b ((n + 2) / 256), b (n + 2), b op, b (op / 256)] := by
  constructor
  · unfold wrathServerSize MINIMUM_SIZE_LENGTH LARGE_MESSAGE_THRESHOLD MAXIMUM_SERVER_HEADER_LENGTH MINIMUM_SERVER_HEADER_LENGTH
    split <;> omega
  · unfold wrathServerHeader LARGE_MESSAGE_THRESHOLD MINIMUM_SIZE_LENGTH MAXIMUM_SIZE_LENGTH
    split
    · omega
    · have h2 : (n + 4 - 2) % 65536 = n + 2 := by omega
      rw [h2]

/-- what the three server/client header parsers compute on a 2-byte-size header -/
theorem dec2 (f : Nat) (hf : f < 65536) : (b (f / 256)).toNat * 256 + (b f).toNat = f := by
  simp only [b_toNat]; omega
theorem decOp2 (op : Nat) (h : op < 65536) : (b op).toNat + (b (op / 256)).toNat * 256 = op := by
  simp only [b_toNat]; omega
theorem decOp4 (op : Nat) (h : op < 4294967296) :
    (b op).toNat + (b (op / 256)).toNat * 256 + (b (op / 65536)).toNat * 65536 + (b (op / 16777216)).toNat * 16777216 = op := by
  simp only [b_toNat]; omega
theorem dec3 (f : Nat) (hf : f < 8388608) :
    ((b ((f / 65536) % 256 ||| 0x80)).toNat % 128) * 65536 + (b (f / 256)).toNat * 256 + (b f).toNat = f ∧
    (b ((f / 65536) % 256 ||| 0x80)).toNat ≥ 128 := by
  have h1 : (f / 65536) % 256 < 128 := by omega
  simp only [b_toNat, or_128 _ h1]; omega

theorem readHeader_client (api : Api) (e : Exp) (op n : Nat) (t : Bytes) (hn : n + 4 < 65536) (hop : op < 4294967296) :
    readHeader api e .client (clientHeader op (n + 6) ++ t) = .ok (op, n, t) := by
  unfold readHeader clientHeader SIZE_LENGTH
  simp only []
  rw [take?_append' 6 _ _ (by simp)]
  simp only [List.getD_cons_zero, List.getD_cons_succ]
  have h2 : n + 6 - 2 = n + 4 := by omega
  rw [h2, dec2 _ hn, decOp4 _ hop]
  have : n + 4 - 4 = n := by omega
  rw [this]

theorem readHeader_small (api : Api) (e : Exp) (op n : Nat) (t : Bytes) (hn : n + 2 < 65536)
    (hs : e = .wrath → n + 2 < 32768) (hop : op < 65536) :
    readHeader api e .server ([b ((n + 2) / 256), b (n + 2), b op, b (op / 256)] ++ t) = .ok (op, n, t) := by
  unfold readHeader
  simp only []
  rw [take?_append' 4 _ _ (by simp)]
  simp only [List.getD_cons_zero, List.getD_cons_succ]
  have hlt : e = .wrath → (b ((n + 2) / 256)).toNat < 128 := by
    intro he; have := hs he; simp only [b_toNat]; omega
  split
  · rename_i hc; have := hlt hc.1; omega
  · rw [dec2 _ hn, decOp2 _ hop]
    have : n + 2 - 2 = n := by omega
    rw [this]

theorem readHeader_large (api : Api) (op n : Nat) (t : Bytes) (hn : n + 2 < 8388608) (hop : op < 65536) :
    readHeader api .wrath .server ([b (((n + 2) / 65536) % 256 ||| 0x80), b ((n + 2) / 256), b (n + 2), b op, b (op / 256)] ++ t)
      = .ok (op, n, t) := by
  unfold readHeader
  simp only []
  rw [show ∀ (a c d f g : UInt8), [a, c, d, f, g] ++ t = [a, c, d, f] ++ ([g] ++ t) from by intros; simp]
  rw [take?_append' 4 _ _ (by simp)]
  simp only [List.getD_cons_zero, List.getD_cons_succ]
  obtain ⟨h3, hge⟩ := dec3 (n + 2) hn
  rw [if_pos ⟨trivial, hge⟩]
  rw [take?_append' 1 _ _ (by simp)]
  simp only [List.getD_cons_zero]
  rw [h3, decOp2 _ hop]
  have : n + 2 - 2 = n := by omega
  rw [this]

theorem writeFrame_client (e : Exp) (op : Nat) (body : Bytes) (h : body.length ≤ 65529) :
    writeFrame e .client op body = .ok (clientHeader op (body.length + 6) ++ body) := by
  have h1 := u16Total_ok body.length 6 (by omega)
  have h2 : (clientHeader op (body.length + 6) ++ body).length % 65536 = body.length + 6 := by
    simp [clientHeader]; omega
  cases e <;> simp [writeFrame, CLIENT_HEADER_LENGTH, h1] <;> simp [clientHeader] <;> omega

theorem writeFrame_small_server (e : Exp) (he : e ≠ .wrath) (op : Nat) (body : Bytes) (h : body.length ≤ 65531) :
    writeFrame e .server op body = .ok ([b ((body.length + 2) / 256), b (body.length + 2), b op, b (op / 256)] ++ body) := by
  have h1 := u16Total_ok body.length 4 (by omega)
  have h3 : smallServerHeader op (body.length + 4) = [b ((body.length + 2) / 256), b (body.length + 2), b op, b (op / 256)] := by
    have : body.length + 4 - 2 = body.length + 2 := by omega
    simp [smallServerHeader, SIZE_LENGTH, this]
  have h2 : ([b ((body.length + 2) / 256), b (body.length + 2), b op, b (op / 256)] ++ body).length % 65536 = body.length + 4 := by
    simp; omega
  cases e <;> first | (exact absurd rfl he) | (simp [writeFrame, SERVER_HEADER_LENGTH, h1, h3]; omega)

theorem writeFrame_wrath_server (op : Nat) (body : Bytes) (h : body.length ≤ 8388605) :
    writeFrame .wrath .server op body = .ok (wrathServerHeader op (wrathServerSize body.length) ++ body) := by
  unfold writeFrame
  simp only []
  by_cases hl : body.length + 2 > 32767
  · obtain ⟨h1, h2⟩ := wrath_large op body.length hl
    rw [h1, h2]
    rw [if_pos (by simp)]
  · obtain ⟨h1, h2⟩ := wrath_small op body.length hl
    rw [h1, h2]
    rw [if_pos (by simp)]
end WowVerif.Frame
