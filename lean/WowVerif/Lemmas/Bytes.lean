/- Lemmas about little/big-endian integer encodings (used by Thm/C01.lean, Thm/C09.lean). -/
import WowVerif.Model.Bytes
namespace WowVerif

@[simp] theorem length_encLE (k n : Nat) : (encLE k n).length = k := by
  induction k generalizing n with
  | zero => rfl
  | succ k ih => simp [encLE, ih]

@[simp] theorem length_encBE (k n : Nat) : (encBE k n).length = k := by simp [encBE]

theorem decLE_encLE (k n : Nat) (h : n < 256 ^ k) : decLE (encLE k n) = n := by
  induction k generalizing n with
  | zero => simp [encLE, decLE] at *; omega
  | succ k ih =>
    have h2 : n / 256 < 256 ^ k := by
      rw [Nat.pow_succ] at h
      exact Nat.div_lt_of_lt_mul (by rw [Nat.mul_comm]; exact h)
    simp only [encLE, decLE, ih _ h2, UInt8.toNat_ofNat']
    omega

theorem decBE_encBE (k n : Nat) (h : n < 256 ^ k) : decBE (encBE k n) = n := by
  simp [decBE, encBE, decLE_encLE k n h]

theorem decLE_lt (bs : Bytes) : decLE bs < 256 ^ bs.length := by
  induction bs with
  | nil => simp [decLE]
  | cons b bs ih =>
    simp only [decLE, List.length_cons, Nat.pow_succ]
    have := b.toNat_lt
    omega

theorem take_append_length {α} (a b : List α) : (a ++ b).take a.length = a := by simp
theorem drop_append_length {α} (a b : List α) : (a ++ b).drop a.length = b := by simp

end WowVerif
