/- Round-trip lemmas for the leaf codecs of Model/Sem.lean. -/
import WowVerif.Model.Sem
import WowVerif.Lemmas.Bytes
import WowVerif.Lemmas.SemIter
namespace WowVerif.Sem

theorem decInt_encInt (k : Nat) (e : Endian) (n : Nat) (b rest : Bytes) (h : encInt k e n = some b) :
    decInt k e (b ++ rest) = .ok (n, rest) := by
  unfold encInt at h
  split at h
  · rename_i hn
    injection h with h
    subst h
    cases e
    · simp only [decInt]
      have hl : (encLE k n).length = k := length_encLE k n
      rw [if_pos (by simp)]
      have t1 : (encLE k n ++ rest).take k = encLE k n := by
        have := take_append_length (encLE k n) rest; rwa [hl] at this
      have t2 : (encLE k n ++ rest).drop k = rest := by
        have := drop_append_length (encLE k n) rest; rwa [hl] at this
      simp only [t1, t2, decLE_encLE k n hn]
    · simp only [decInt]
      have hl : (encBE k n).length = k := length_encBE k n
      rw [if_pos (by simp)]
      have t1 : (encBE k n ++ rest).take k = encBE k n := by
        have := take_append_length (encBE k n) rest; rwa [hl] at this
      have t2 : (encBE k n ++ rest).drop k = rest := by
        have := drop_append_length (encBE k n) rest; rwa [hl] at this
      simp only [t1, t2, decBE_encBE k n hn]
  · cases h

theorem encInt_length (k : Nat) (e : Endian) (n : Nat) (b : Bytes) (h : encInt k e n = some b) : b.length = k := by
  unfold encInt at h
  split at h
  · injection h with h; subst h; cases e <;> simp
  · cases h

theorem splitAtZero_append (s rest : Bytes) (h : s.contains 0 = false) : splitAtZero (s ++ 0 :: rest) = some (s, rest) := by
  induction s with
  | nil => simp [splitAtZero]
  | cons x s ih =>
    simp only [List.contains_cons, Bool.or_eq_false_iff] at h
    have hx : (x == 0) = false := by
      have := h.1
      simp only [beq_eq_false_iff_ne, ne_eq] at this ⊢
      exact fun e => this e.symm
    simp [splitAtZero, hx, ih h.2]

theorem unpack_pack (bs rest : Bytes) :
    unpackBytes (packBytes bs).1 ((packBytes bs).2 ++ rest) = .ok (bs, rest) := by
  induction bs with
  | nil => simp [packBytes, unpackBytes]
  | cons x bs ih =>
    simp only [packBytes]
    by_cases hx : (x == 0) = true
    · have : x = 0 := by simpa using hx
      subst this
      simp [unpackBytes, ih]
    · simp only [hx]
      simp [unpackBytes, ih]

theorem packBytes_length (bs : Bytes) : (packBytes bs).1.length = bs.length := by
  induction bs with
  | nil => rfl
  | cons x bs ih => simp only [packBytes]; split <;> simp [ih]

theorem natToBits_bitsToNat (m : List Bool) : natToBits m.length (bitsToNat m) = m := by
  induction m with
  | nil => rfl
  | cons x m ih =>
    simp only [List.length_cons, natToBits, bitsToNat]
    have h1 : ((if x = true then 1 else 0) + 2 * bitsToNat m) / 2 = bitsToNat m := by cases x <;> simp <;> omega
    have h2 : (((if x = true then 1 else 0) + 2 * bitsToNat m) % 2 == 1) = x := by cases x <;> simp <;> omega
    rw [h1, h2, ih]

theorem bitsToNat_lt (m : List Bool) : bitsToNat m < 2 ^ m.length := by
  induction m with
  | nil => simp [bitsToNat]
  | cons x m ih => simp only [bitsToNat, List.length_cons, Nat.pow_succ]; cases x <;> simp <;> omega

/-! ### built-in types (achievement arrays, spline lists) -/

theorem rtB (l : BLeaf) (n : Nat) (b rest : Bytes) (h : encB l n = some b) : decB l (b ++ rest) = .ok (n, rest) := by
  cases l with
  | u8 => simp only [encB] at h; simp [decB, decInt_encInt 1 .le n b rest h]
  | u16 => simp only [encB] at h; simp [decB, decInt_encInt 2 .le n b rest h]
  | u32 => simp only [encB] at h; simp [decB, decInt_encInt 4 .le n b rest h]
  | pg =>
    simp only [encB] at h
    split at h
    · rename_i hn
      simp only [Option.some.injEq] at h
      subst h
      have hlen : (packBytes (encLE 8 n)).1.length = 8 := by rw [packBytes_length]; simp
      have hlt : bitsToNat (packBytes (encLE 8 n)).1 < 256 := by
        have := bitsToNat_lt (packBytes (encLE 8 n)).1; rw [hlen] at this; simpa using this
      have hbits : natToBits 8 (UInt8.ofNat (bitsToNat (packBytes (encLE 8 n)).1)).toNat = (packBytes (encLE 8 n)).1 := by
        rw [UInt8.toNat_ofNat', Nat.mod_eq_of_lt hlt]
        have := natToBits_bitsToNat (packBytes (encLE 8 n)).1
        rwa [hlen] at this
      simp only [decB, List.cons_append, hbits, unpack_pack, decLE_encLE 8 n hn]
    · cases h
  | bool32 =>
    simp only [encB] at h
    split at h
    · rename_i hn
      have : (if n = 0 then 0 else 1) = n := by split <;> omega
      simp [decB, decInt_encInt 4 .le n b rest h, this]
    · cases h
  | dt =>
    simp only [encB] at h
    split at h
    · rename_i hn
      simp [decB, decInt_encInt 4 .le n b rest h, hn.2]
    · cases h

theorem rtBs : ∀ (ls : List BLeaf) (vs : List Val) (b rest : Bytes), encBs ls vs = some b →
    decBs ls (b ++ rest) = .ok (vs, rest)
  | [], [], b, rest, h => by simp only [encBs, Option.some.injEq] at h; subst h; simp [decBs]
  | [], _ :: _, b, rest, h => by simp [encBs] at h
  | l :: ls, [], b, rest, h => by simp [encBs] at h
  | l :: ls, v :: vs, b, rest, h => by
    cases v with
    | nat n =>
      simp only [encBs] at h
      cases h1 : encB l n with
      | none => simp [h1] at h
      | some b1 =>
        cases h2 : encBs ls vs with
        | none => simp [h1, h2] at h
        | some b2 =>
          simp only [h1, h2, Option.some.injEq] at h
          subst h
          simp only [decBs, List.append_assoc, rtB l n b1 (b2 ++ rest) h1, rtBs ls vs b2 rest h2]
    | _ => simp [encBs] at h

theorem rtSent (ls : List BLeaf) : ∀ (vs : List Val) (b rest : Bytes) (fuel : Nat), encSent ls vs = some b → vs.length < fuel →
    decSent ls fuel (b ++ rest) = .ok (vs, rest)
  | [], b, rest, fuel, h, hf => by
    cases fuel with
    | zero => omega
    | succ fuel =>
      simp only [encSent] at h
      simp [decSent, decInt_encInt 4 .le sentinelId b rest h]
  | v :: vs, b, rest, fuel, h, hf => by
    cases fuel with
    | zero => simp at hf
    | succ fuel =>
      cases v with
      | tuple fs0 =>
        cases fs0 with
        | nil => simp [encSent] at h
        | cons f0 fs =>
          cases f0 with
          | nat id =>
            simp only [encSent] at h
            split at h
            · rename_i hid
              cases h1 : encBs ls fs with
              | none => simp [h1] at h
              | some b1 =>
                cases h2 : encSent ls vs with
                | none => simp [h1, h2] at h
                | some b2 =>
                  simp only [h1, h2, Option.some.injEq] at h
                  subst h
                  have hid' : id < 256 ^ 4 := by simp [sentinelId] at hid; omega
                  have he : encInt 4 .le id = some (encLE 4 id) := by simp [encInt, hid']
                  have hd := decInt_encInt 4 .le id (encLE 4 id) (b1 ++ b2 ++ rest) he
                  have hne : ¬ id = sentinelId := by omega
                  have hr := rtSent ls vs b2 rest fuel h2 (by simp at hf; omega)
                  simp only [decSent, List.append_assoc] at hd ⊢
                  simp only [hd, hne, if_false, rtBs ls fs b1 (b2 ++ rest) h1, hr]
            · cases h
          | _ => simp [encSent] at h
      | _ => simp [encSent] at h

theorem encSent_length (ls : List BLeaf) : ∀ (vs : List Val) (b : Bytes), encSent ls vs = some b → 4 * (vs.length + 1) ≤ b.length
  | [], b, h => by simp only [encSent] at h; simp [encInt_length 4 .le _ b h]
  | v :: vs, b, h => by
    cases v with
    | tuple fs0 =>
      cases fs0 with
      | nil => simp [encSent] at h
      | cons f0 fs =>
        cases f0 with
        | nat id =>
          simp only [encSent] at h
          split at h
          · cases h1 : encBs ls fs with
            | none => simp [h1] at h
            | some b1 =>
              cases h2 : encSent ls vs with
              | none => simp [h1, h2] at h
              | some b2 =>
                simp only [h1, h2, Option.some.injEq] at h
                subst h
                have := encSent_length ls vs b2 h2
                simp; omega
          · cases h
        | _ => simp [encSent] at h
    | _ => simp [encSent] at h

theorem rtTuple (ls : List BLeaf) (v : Val) (b rest : Bytes) (h : tupleOf ls v = some b) : decTuple ls (b ++ rest) = .ok (v, rest) := by
  cases v with
  | tuple fs => simp only [tupleOf] at h; simp [decTuple, rtBs ls fs b rest h]
  | _ => simp [tupleOf] at h

theorem rtSplines (vs : List Val) (b rest : Bytes) (h : encSplines vs = some b) : decSplines (b ++ rest) = .ok (vs, rest) := by
  cases vs with
  | nil =>
    simp only [encSplines] at h
    simp [decSplines, decInt_encInt 4 .le 0 b rest h]
  | cons p ps =>
    simp only [encSplines] at h
    cases h0 : encInt 4 .le (ps.length + 1) with
    | none => simp [h0] at h
    | some c =>
      cases h1 : tupleOf [.u32, .u32, .u32] p with
      | none => simp [h0, h1] at h
      | some b1 =>
        cases h2 : iterEnc (tupleOf [.u32]) ps with
        | none => simp [h0, h1, h2] at h
        | some b2 =>
          simp only [h0, h1, h2, Option.some.injEq] at h
          subst h
          have hd := decInt_encInt 4 .le (ps.length + 1) c (b1 ++ b2 ++ rest) h0
          have ht := rtTuple [.u32, .u32, .u32] p b1 (b2 ++ rest) h1
          have hi := iterDec_iterEnc (tupleOf [.u32]) (decTuple [.u32]) ps
            (fun v b' rest' _ hv => rtTuple [.u32] v b' rest' hv) b2 rest h2
          simp only [decSplines, List.append_assoc] at hd ⊢
          simp only [hd, ht, hi]

theorem rtU32V (v : Val) (b rest : Bytes) (h : encU32V v = some b) : decU32V (b ++ rest) = .ok (v, rest) := by
  cases v with
  | nat n => simp only [encU32V] at h; simp [decU32V, decInt_encInt 4 .le n b rest h]
  | _ => simp [encU32V] at h

theorem rtUpdateMask (v : Val) (b rest : Bytes) (h : encUpdateMask v = some b) : decUpdateMask (b ++ rest) = .ok (v, rest) := by
  unfold encUpdateMask at h
  split at h
  · rename_i masks values
    split at h
    · rename_i hc
      cases h0 : encInt 1 .le masks.length with
      | none => simp [h0] at h
      | some c =>
        cases h1 : iterEnc encU32V masks with
        | none => simp [h0, h1] at h
        | some mb =>
          cases h2 : iterEnc encU32V values with
          | none => simp [h0, h1, h2] at h
          | some vb =>
            simp only [h0, h1, h2, Option.some.injEq] at h
            subst h
            have hd := decInt_encInt 1 .le masks.length c (mb ++ vb ++ rest) h0
            have hm := iterDec_iterEnc encU32V decU32V masks (fun v b' rest' _ hv => rtU32V v b' rest' hv) mb (vb ++ rest) h1
            have hv := iterDec_iterEnc encU32V decU32V values (fun v b' rest' _ hv => rtU32V v b' rest' hv) vb rest h2
            rw [hc.1] at hv
            simp only [decUpdateMask, List.append_assoc] at hd ⊢
            simp only [hd, hm, hv, hc.2, if_true]
    · cases h
  · cases h

theorem rtSlots (enc : Val → Option Bytes) (dec : Bytes → Except Err (Val × Bytes))
    (hrt : ∀ v b rest, enc v = some b → dec (b ++ rest) = .ok (v, rest)) :
    ∀ (vs : List Val) (m : List Bool) (b rest : Bytes), encSlots enc vs = some (m, b) →
      decSlots dec m (b ++ rest) = .ok (vs, rest) ∧ m.length = vs.length
  | [], m, b, rest, h => by
    simp only [encSlots, Option.some.injEq, Prod.mk.injEq] at h
    obtain ⟨h1, h2⟩ := h; subst h1; subst h2; simp [decSlots]
  | v :: vs, m, b, rest, h => by
    cases v with
    | list es =>
      cases es with
      | nil =>
        simp only [encSlots] at h
        cases h1 : encSlots enc vs with
        | none => simp [h1] at h
        | some q =>
          obtain ⟨m1, b1⟩ := q
          simp only [h1, Option.some.injEq, Prod.mk.injEq] at h
          obtain ⟨hm, hb⟩ := h; subst hm; subst hb
          have ih := rtSlots enc dec hrt vs m1 b1 rest h1
          simp [decSlots, ih.1, ih.2]
      | cons e es' =>
        cases es' with
        | nil =>
          simp only [encSlots] at h
          cases h0 : enc e with
          | none => simp [h0] at h
          | some eb =>
            cases h1 : encSlots enc vs with
            | none => simp [h0, h1] at h
            | some q =>
              obtain ⟨m1, b1⟩ := q
              simp only [h0, h1, Option.some.injEq, Prod.mk.injEq] at h
              obtain ⟨hm, hb⟩ := h; subst hm; subst hb
              have ih := rtSlots enc dec hrt vs m1 b1 rest h1
              simp [decSlots, List.append_assoc, hrt e eb (b1 ++ rest) h0, ih.1, ih.2]
        | cons _ _ => simp [encSlots] at h
    | _ => simp [encSlots] at h

theorem rtMask (w : Nat) (enc : Val → Option Bytes) (dec : Bytes → Except Err (Val × Bytes))
    (hrt : ∀ v b rest, enc v = some b → dec (b ++ rest) = .ok (v, rest))
    (v : Val) (b rest : Bytes) (h : encMask w enc v = some b) : decMask w dec (b ++ rest) = .ok (v, rest) := by
  cases v with
  | list slots =>
    simp only [encMask] at h
    split at h
    · rename_i hl
      cases h1 : encSlots enc slots with
      | none => simp [h1] at h
      | some q =>
        obtain ⟨m, sb⟩ := q
        simp only [h1] at h
        cases h2 : encInt w .le (bitsToNat m) with
        | none => simp [h2] at h
        | some pb =>
          simp only [h2, Option.map_some, Option.some.injEq] at h
          subst h
          have hs := rtSlots enc dec hrt slots m sb rest h1
          have hd := decInt_encInt w .le (bitsToNat m) pb (sb ++ rest) h2
          have hbits : natToBits (8 * w) (bitsToNat m) = m := by
            have := natToBits_bitsToNat m
            rwa [hs.2, hl] at this
          simp only [decMask, List.append_assoc, hd, hbits, hs.1]
    · cases h
  | _ => simp [encMask] at h

theorem rtGear (v : Val) (b rest : Bytes) (h : encGear v = some b) : decGear (b ++ rest) = .ok (v, rest) := by
  unfold encGear at h
  split at h
  · rename_i item em fs
    cases h0 : encB .u32 item with
    | none => simp [h0] at h
    | some a =>
      cases h1 : encMask 2 (tupleOf [.u16]) em with
      | none => simp [h0, h1] at h
      | some mb =>
        cases h2 : encBs gearTail fs with
        | none => simp [h0, h1, h2] at h
        | some c =>
          simp only [h0, h1, h2, Option.some.injEq] at h
          subst h
          have d0 := rtB .u32 item a (mb ++ c ++ rest) h0
          have d1 := rtMask 2 (tupleOf [.u16]) (decTuple [.u16]) (fun v b' rest' hv => rtTuple [.u16] v b' rest' hv) em mb (c ++ rest) h1
          have d2 := rtBs gearTail fs c rest h2
          simp only [List.append_assoc] at d0 ⊢
          simp only [decGear, d0, d1, d2]
  · cases h

theorem rtNamedGuid (v : Val) (b rest : Bytes) (h : encNamedGuid v = some b) : decNamedGuid (b ++ rest) = .ok (v, rest) := by
  unfold encNamedGuid at h
  split at h
  · rename_i g
    split at h
    · rename_i hg
      subst hg
      simp [decNamedGuid, decInt_encInt 8 .le 0 b rest h]
    · cases h
  · rename_i g s
    split at h
    · rename_i hg
      cases h0 : encInt 8 .le g with
      | none => simp [h0] at h
      | some gb =>
        simp only [h0, Option.map_some, Option.some.injEq] at h
        subst h
        have hd := decInt_encInt 8 .le g gb (s ++ [0] ++ rest) h0
        have hz := splitAtZero_append s rest hg.2
        simp only [List.append_assoc, List.singleton_append] at hd ⊢
        simp only [decNamedGuid, hd, hg.1, if_false, hz]
    · cases h
  · cases h

theorem rtVirp (v : Val) (b rest : Bytes) (h : encVirp v = some b) : decVirp (b ++ rest) = .ok (v, rest) := by
  unfold encVirp at h
  split at h
  · rename_i id
    split at h
    · rename_i hg
      subst hg
      simp [decVirp, decInt_encInt 4 .le 0 b rest h]
    · cases h
  · rename_i id sf
    split at h
    · rename_i hg
      cases h0 : encInt 4 .le id with
      | none => simp [h0] at h
      | some a =>
        cases h1 : encInt 4 .le sf with
        | none => simp [h0, h1] at h
        | some c =>
          simp only [h0, h1, Option.some.injEq] at h
          subst h
          have d0 := decInt_encInt 4 .le id a (c ++ rest) h0
          have d1 := decInt_encInt 4 .le sf c rest h1
          simp only [List.append_assoc] at d0 ⊢
          simp only [decVirp, d0, hg, if_false, d1]
    · cases h
  · cases h

theorem rtPrim (name : String) (v : Val) (b rest : Bytes) (h : encPrim name v = some b) :
    decPrim name (b ++ rest) = .ok (v, rest) := by
  unfold encPrim at h
  unfold decPrim
  cases hk : primKind name with
  | achDone =>
    cases v with
    | list vs =>
      simp only [hk] at h
      have hl := encSent_length achDoneFields vs b h
      simp only [rtSent achDoneFields vs b rest ((b ++ rest).length + 1) h (by simp; omega)]
    | _ => simp [hk] at h
  | achProg =>
    cases v with
    | list vs =>
      simp only [hk] at h
      have hl := encSent_length achProgFields vs b h
      simp only [rtSent achProgFields vs b rest ((b ++ rest).length + 1) h (by simp; omega)]
    | _ => simp [hk] at h
  | splines =>
    cases v with
    | list vs =>
      simp only [hk] at h
      simp only [rtSplines vs b rest h]
    | _ => simp [hk] at h
  | updateMask =>
    simp only [hk] at h
    simp only [rtUpdateMask v b rest h]
  | mask w ls =>
    simp only [hk] at h
    simp only [rtMask w (tupleOf ls) (decTuple ls) (fun v b' rest' hv => rtTuple ls v b' rest' hv) v b rest h]
  | gear =>
    simp only [hk] at h
    simp only [rtMask 4 encGear decGear rtGear v b rest h]
  | namedGuid => simp only [hk] at h; simp only [rtNamedGuid v b rest h]
  | virp => simp only [hk] at h; simp only [rtVirp v b rest h]
  | other => cases v <;> simp [hk] at h

/-- **leaf round trip**: a leaf decodes its own encoding and leaves the rest of the stream untouched -/
theorem decLeaf_encLeaf (l : Leaf) (v : Val) (b rest : Bytes) (h : encLeaf l v = some b) :
    decLeaf l (b ++ rest) = .ok (v, rest) := by
  cases l with
  | int k e =>
    cases v <;> simp only [encLeaf] at h <;> try (cases h)
    simp [decLeaf, decInt_encInt k e _ b rest h]
  | bool k =>
    cases v <;> simp only [encLeaf] at h <;> try (cases h)
    rename_i n
    split at h
    · rename_i hn
      have : (if n = 0 then 0 else 1) = n := by split <;> omega
      simp [decLeaf, decInt_encInt k .le _ b rest h, this]
    · cases h
  | enumT k e vals =>
    cases v <;> simp only [encLeaf] at h <;> try (cases h)
    rename_i n
    split at h
    · rename_i hn
      have hn' : n ∈ vals := by simpa using hn
      simp [decLeaf, decInt_encInt k e _ b rest h, hn']
    · cases h
  | lvl k =>
    cases v <;> simp only [encLeaf] at h <;> try (cases h)
    rename_i n
    split at h
    · rename_i hn
      simp [decLeaf, decInt_encInt k .le _ b rest h, hn]
    · cases h
  | dateTime =>
    cases v <;> simp only [encLeaf] at h <;> try (cases h)
    rename_i n
    split at h
    · rename_i hn
      simp [decLeaf, decInt_encInt 4 .le _ b rest h, hn.2]
    · cases h
  | cstring =>
    cases v <;> simp only [encLeaf] at h <;> try (cases h)
    rename_i s
    split at h
    · cases h
    · rename_i hs
      injection h with h
      subst h
      have hs' : s.contains 0 = false := by simpa using hs
      simp [decLeaf, splitAtZero_append s rest hs']
  | sizedCString =>
    cases v <;> simp only [encLeaf] at h <;> try (cases h)
    rename_i s
    split at h
    · cases h
    · rename_i hs
      have hs' : s.contains 0 = false := by simpa using hs
      cases he : encInt 4 .le (s.length + 1) with
      | none => simp [he] at h
      | some hb =>
        simp only [he, Option.map_some, Option.some.injEq] at h
        subst h
        have hd := decInt_encInt 4 .le (s.length + 1) hb (s ++ [0] ++ rest) he
        simp only [decLeaf]
        rw [show hb ++ s ++ [0] ++ rest = hb ++ (s ++ [0] ++ rest) by simp, hd]
        simp only [Nat.add_one_ne_zero, if_false]
        rw [if_pos (by simp)]
        have t1 : (s ++ [0] ++ rest).take (s.length + 1 - 1) = s := by simp
        have t2 : (s ++ [0] ++ rest).drop (s.length + 1 - 1) = 0 :: rest := by simp
        have t3 : (s ++ [0] ++ rest).drop (s.length + 1) = rest := by
          rw [show s ++ [0] ++ rest = (s ++ [0]) ++ rest by simp]
          have := drop_append_length (s ++ [0]) rest
          simpa using this
        simp only [t1, t2, t3, hs', Bool.false_eq_true, if_false, List.head?_cons, if_true]
  | string =>
    cases v <;> simp only [encLeaf] at h <;> try (cases h)
    rename_i s
    cases he : encInt 1 .le s.length with
    | none => simp [he] at h
    | some hb =>
      simp only [he, Option.map_some, Option.some.injEq] at h
      subst h
      have hd := decInt_encInt 1 .le s.length hb (s ++ rest) he
      simp only [decLeaf]
      rw [List.append_assoc, hd]
      simp
  | packedGuid =>
    cases v <;> simp only [encLeaf] at h <;> try (cases h)
    rename_i n
    split at h
    · rename_i hn
      simp only [Option.some.injEq] at h
      subst h
      have hlen : (packBytes (encLE 8 n)).1.length = 8 := by rw [packBytes_length]; simp
      have hlt : bitsToNat (packBytes (encLE 8 n)).1 < 256 := by
        have := bitsToNat_lt (packBytes (encLE 8 n)).1; rw [hlen] at this; simpa using this
      have hbits : natToBits 8 (UInt8.ofNat (bitsToNat (packBytes (encLE 8 n)).1)).toNat = (packBytes (encLE 8 n)).1 := by
        rw [UInt8.toNat_ofNat', Nat.mod_eq_of_lt hlt]
        have := natToBits_bitsToNat (packBytes (encLE 8 n)).1
        rwa [hlen] at this
      simp only [decLeaf, List.cons_append, hbits, unpack_pack, decLE_encLE 8 n hn]
    · cases h
  | prim nm =>
    have h' : encPrim nm v = some b := by cases v <;> simpa [encLeaf] using h
    simp only [decLeaf, rtPrim nm v b rest h']

end WowVerif.Sem
