/- Array helpers: element round trip ⇒ array round trip. -/
import WowVerif.Model.Sem
namespace WowVerif.Sem

theorem iterDec_iterEnc (fe : Val → Option Bytes) (fd : Bytes → Except Err (Val × Bytes)) (vs : List Val)
    (hel : ∀ v b rest, v ∈ vs → fe v = some b → fd (b ++ rest) = .ok (v, rest))
    (b rest : Bytes) (h : iterEnc fe vs = some b) : iterDec fd vs.length (b ++ rest) = .ok (vs, rest) := by
  induction vs generalizing b with
  | nil => simp [iterEnc] at h; subst h; simp [iterDec]
  | cons v vs ih =>
    simp only [iterEnc] at h
    cases h1 : fe v with
    | none => simp [h1] at h
    | some b1 =>
      cases h2 : iterEnc fe vs with
      | none => simp [h1, h2] at h
      | some b2 =>
        simp only [h1, h2, Option.some.injEq] at h
        subst h
        have e1 := hel v b1 (b2 ++ rest) (List.mem_cons_self) h1
        have e2 := ih (fun v b rest hv => hel v b rest (List.mem_cons_of_mem _ hv)) b2 h2
        simp only [List.length_cons, iterDec, List.append_assoc, e1, e2]

theorem iterDecAll_iterEnc1 (fe : Val → Option Bytes) (fd : Bytes → Except Err (Val × Bytes)) (vs : List Val)
    (hel : ∀ v b rest, v ∈ vs → fe v = some b → fd (b ++ rest) = .ok (v, rest))
    (b : Bytes) (h : iterEnc1 fe vs = some b) (fuel : Nat) (hf : b.length ≤ fuel) : iterDecAll fd fuel b = .ok vs := by
  induction vs generalizing b fuel with
  | nil => simp [iterEnc1] at h; subst h; cases fuel <;> simp [iterDecAll]
  | cons v vs ih =>
    simp only [iterEnc1] at h
    cases h1 : fe v with
    | none => simp [h1] at h
    | some b1 =>
      cases b1 with
      | nil => simp [h1] at h
      | cons x b1 =>
        cases h2 : iterEnc1 fe vs with
        | none => simp [h1, h2] at h
        | some b2 =>
          simp only [h1, h2, Option.some.injEq] at h
          subst h
          have e1 := hel v (x :: b1) b2 (List.mem_cons_self) h1
          cases fuel with
          | zero => simp at hf
          | succ fuel =>
            have hf2 : b2.length ≤ fuel := by simp at hf; omega
            have e2 := ih (fun v b rest hv => hel v b rest (List.mem_cons_of_mem _ hv)) b2 h2 fuel hf2
            simp only [iterDecAll, List.cons_append] at e1 ⊢
            rw [e1]
            simp only [e2]
            rw [if_pos (by simp; omega)]

end WowVerif.Sem
